#!/usr/bin/env python3
"""Post-processes the C18 race part (real goroutines under the Go race detector):
writes <scr>/race.json (evidence fragment) and, on a data race or a result
mismatch, <scr>/race-violation.json (replay file)."""
import json, sys, os
scr, rc, seed, frm, n = sys.argv[1], int(sys.argv[2]), int(sys.argv[3]), int(sys.argv[4]), int(sys.argv[5])
prop = sys.argv[6] if len(sys.argv) > 6 else "C18"
raw = {}
try:
    raw = json.load(open(os.path.join(scr, "race.raw.json")))
except Exception:
    pass
log = open(os.path.join(scr, "race.log"), errors="replace").read()
raw.update({"exit_code": rc, "data_race_reported": rc == 66, "seed": seed, "from": frm, "n": n,
            "kind": "real execution under the Go race detector (not simulation)"})
json.dump({"race_part": raw}, open(os.path.join(scr, "race.json"), "w"))
if rc in (66, 3):
    json.dump({"property": prop, "class": prop + "/data-race" if rc == 66 else prop + "/result-differs-in-parallel",
               "race_part": {"seed": seed, "from": frm, "n": n}, "log_tail": log[-6000:]},
              open(os.path.join(scr, "race-violation.json"), "w"), indent=1)
