package main

// .deb package model and builder (deb(5)): debian-binary, control.tar[.codec]
// holding ./control among other files, data.tar[.codec], optional extra
// members.  Tars come from archive/tar; gzip from the stdlib; zstd and lzma
// from the encoders that ship with the third-party modules; bzip2 and xz have
// no Go encoder available offline, so those payloads come from a committed
// corpus (harness/fixtures/payloads, made once with /usr/bin/bzip2 and xz by
// `vh mkfixtures`).

import (
	"archive/tar"
	"bytes"
	"compress/gzip"
	"embed"
	"encoding/json"
	"fmt"
	"os"
	"os/exec"
	"path/filepath"
	"strings"
	"time"

	"github.com/kjk/lzma"
	"github.com/klauspost/compress/zstd"
	"pault.ag/go/debian/deb"
	"verifsim/rt"
)

//go:embed fixtures
var fixturesFS embed.FS

type mControl struct {
	Package       string
	Source        string
	Version       mVersion
	Arch          mArch
	Maintainer    string
	InstalledSize int // -1 = absent
	MultiArch     string
	Depends       mDep
	Recommends    mDep
	Suggests      mDep
	Breaks        mDep
	Replaces      mDep
	BuiltUsing    mDep
	Section       string
	Priority      string
	Homepage      string
	Synopsis      string
	DescLines     []string // extended description lines ("" = " .")
	Extra         [][2]string
	FoldedDeps    bool
}

func genControl(t *rt.Tape, label string) mControl {
	c := mControl{InstalledSize: -1}
	c.Package = genPkgName(t, label+".pkg")
	if t.Bool(1, 3, label+".src") {
		c.Source = genPkgName(t, label+".srcname")
	}
	c.Version = genVersion(t, label+".ver")
	c.Arch = archStock[t.Draw(5, label+".arch")]
	if t.Bool(4, 5, label+".maint") {
		c.Maintainer = genPerson(t, label+".maintv")
	}
	if t.Bool(2, 3, label+".isz") {
		c.InstalledSize = t.Draw(500000, label+".iszv")
	}
	if t.Bool(1, 3, label+".ma") {
		c.MultiArch = []string{"same", "foreign", "allowed"}[t.Draw(3, label+".mav")]
	}
	o := depOpts{MaxRels: 4}
	c.FoldedDeps = t.Bool(1, 3, label+".fold")
	for i, dst := range []*mDep{&c.Depends, &c.Recommends, &c.Suggests, &c.Breaks, &c.Replaces, &c.BuiltUsing} {
		if t.Bool([]int{3, 1, 1, 1, 1, 1}[i], 4, label+".hasdep") {
			*dst = genDep(t, o, label+".dep")
		}
	}
	if t.Bool(2, 3, label+".sec") {
		c.Section = []string{"utils", "libs", "contrib/net", "non-free/doc"}[t.Draw(4, label+".secv")]
	}
	if t.Bool(2, 3, label+".prio") {
		c.Priority = []string{"optional", "required", "extra"}[t.Draw(3, label+".priov")]
	}
	if t.Bool(1, 2, label+".home") {
		c.Homepage = "https://example.org/" + genFrom(t, lowerAlnum, 1, 8, label+".homev")
	}
	if t.Bool(5, 6, label+".desc") {
		c.Synopsis = genWords(t, 1, 6, label+".syn")
		for i, n := 0, t.Range(0, 4, label+".ndesc"); i < n; i++ {
			if i > 0 && t.Bool(1, 4, label+".descempty") {
				c.DescLines = append(c.DescLines, "")
			} else {
				c.DescLines = append(c.DescLines, genWords(t, 1, 8, label+".dl"))
			}
		}
		if t.Bool(1, 25, label+".hugedesc") {
			// a control file that passes 64 KiB (and other round buffer sizes): long
			// descriptions are rare but legal, nothing in the format bounds them
			sub := t.Sub(label + ".hugedesc.text")
			for i, n := 0, 400+sub.Intn(2200); i < n; i++ {
				w := 1 + sub.Intn(9)
				var ws []string
				for j := 0; j < w; j++ {
					ws = append(ws, words[sub.Intn(len(words))])
				}
				c.DescLines = append(c.DescLines, strings.Join(ws, " "))
			}
		}
	}
	for i, n := 0, t.Weighted([]int{4, 1, 1}, label+".nextra"); i < n; i++ {
		c.Extra = append(c.Extra, [2]string{fmt.Sprintf("X-Extra-%d", i), genWords(t, 1, 3, label+".xv")})
	}
	return c
}

func (c mControl) render() string {
	var sb strings.Builder
	w := func(k, v string) {
		if v != "" {
			sb.WriteString(k + ": " + v + "\n")
		}
	}
	w("Package", c.Package)
	w("Source", c.Source)
	w("Version", c.Version.Text)
	w("Architecture", c.Arch.Text)
	w("Maintainer", c.Maintainer)
	if c.InstalledSize >= 0 {
		w("Installed-Size", fmt.Sprint(c.InstalledSize))
	}
	w("Multi-Arch", c.MultiArch)
	for _, d := range []struct {
		k string
		d mDep
	}{{"Depends", c.Depends}, {"Recommends", c.Recommends}, {"Suggests", c.Suggests}, {"Breaks", c.Breaks}, {"Replaces", c.Replaces}, {"Built-Using", c.BuiltUsing}} {
		if len(d.d) > 0 {
			w(d.k, d.d.render(c.FoldedDeps))
		}
	}
	if len(c.Extra) > 0 {
		w(c.Extra[0][0], c.Extra[0][1])
	}
	w("Section", c.Section)
	w("Priority", c.Priority)
	w("Homepage", c.Homepage)
	if c.Synopsis != "" {
		sb.WriteString("Description: " + c.Synopsis + "\n")
		for _, l := range c.DescLines {
			if l == "" {
				sb.WriteString(" .\n")
			} else {
				sb.WriteString(" " + l + "\n")
			}
		}
	}
	for _, x := range c.Extra[min(1, len(c.Extra)):] {
		w(x[0], x[1])
	}
	return sb.String()
}

// expDescription is the value the reader must produce for Description.
func (c mControl) expDescription() string {
	if c.Synopsis == "" {
		return ""
	}
	if len(c.DescLines) == 0 {
		return c.Synopsis
	}
	return c.Synopsis + "\n" + strings.Join(c.DescLines, "\n") + "\n"
}

// controlDiff compares deb.Control with the model ("" = equal).
func controlDiff(got *deb.Control, c *mControl) string {
	str := func(name, g, w string) string {
		if g != w {
			return fmt.Sprintf("%s: got %q want %q", name, clip(g, 100), clip(w, 100))
		}
		return ""
	}
	for _, d := range []string{
		str("Package", got.Package, c.Package), str("Source", got.Source, c.Source), str("Maintainer", got.Maintainer, c.Maintainer),
		str("Multi-Arch", got.MultiArch, c.MultiArch), str("Section", got.Section, c.Section), str("Priority", got.Priority, c.Priority),
		str("Homepage", got.Homepage, c.Homepage), str("Description", strip1(got.Description), strip1(c.expDescription())),
	} {
		if d != "" {
			return d
		}
	}
	if !verEq(got.Version, c.Version) {
		return fmt.Sprintf("Version: got %+v want %q", got.Version, c.Version.Text)
	}
	if !archEq(got.Architecture, c.Arch) {
		return fmt.Sprintf("Architecture: got %+v want %q", got.Architecture, c.Arch.Text)
	}
	wantSize := c.InstalledSize
	if wantSize < 0 {
		wantSize = 0
	}
	if got.InstalledSize != wantSize {
		return fmt.Sprintf("Installed-Size: got %d want %d", got.InstalledSize, wantSize)
	}
	for _, d := range []struct {
		k string
		g interface{ String() string }
		w mDep
	}{} {
		_ = d
	}
	if d := depDiff(got.Depends, c.Depends); d != "" {
		return "Depends: " + d
	}
	if d := depDiff(got.Recommends, c.Recommends); d != "" {
		return "Recommends: " + d
	}
	if d := depDiff(got.Suggests, c.Suggests); d != "" {
		return "Suggests: " + d
	}
	if d := depDiff(got.Breaks, c.Breaks); d != "" {
		return "Breaks: " + d
	}
	if d := depDiff(got.Replaces, c.Replaces); d != "" {
		return "Replaces: " + d
	}
	if d := depDiff(got.BuiltUsing, c.BuiltUsing); d != "" {
		return "Built-Using: " + d
	}
	for _, x := range c.Extra {
		if got.Values[x[0]] != x[1] {
			return fmt.Sprintf("unknown field %s: got %q want %q", x[0], got.Values[x[0]], x[1])
		}
	}
	return ""
}

// ---------------------------------------------------------------------------
// tar payloads

type tarFile struct {
	Name string
	Body []byte
	Dir  bool
}

func buildTar(files []tarFile) []byte {
	var buf bytes.Buffer
	tw := tar.NewWriter(&buf)
	for _, f := range files {
		h := &tar.Header{Name: f.Name, Mode: 0o644, Size: int64(len(f.Body)), ModTime: time.Unix(1_600_000_000, 0), Typeflag: tar.TypeReg, Format: tar.FormatGNU}
		if f.Dir {
			h.Typeflag, h.Mode, h.Size = tar.TypeDir, 0o755, 0
		}
		if err := tw.WriteHeader(h); err != nil {
			panic(err)
		}
		if !f.Dir {
			tw.Write(f.Body)
		}
	}
	tw.Close()
	return buf.Bytes()
}

type ctlPayload struct {
	Model   mControl
	Files   []tarFile // in tar order; exactly one is the control file
	CtlName string    // "control" or "./control"
}

type dataPayload struct {
	Files []tarFile
}

func genCtlPayload(t *rt.Tape, label string) ctlPayload {
	p := ctlPayload{Model: genControl(t, label)}
	p.CtlName = []string{"./control", "control"}[t.Weighted([]int{3, 1}, label+".ctlname")]
	prefix := strings.TrimSuffix(p.CtlName, "control")
	others := []tarFile{}
	if prefix == "./" && t.Bool(1, 2, label+".dot") {
		others = append(others, tarFile{Name: "./", Dir: true})
	}
	for _, n := range []string{"md5sums", "postinst", "conffiles", "control.orig", "xcontrol"} {
		if t.Bool(1, 3, label+".other") {
			others = append(others, tarFile{Name: prefix + n, Body: []byte("Package: decoy-from-" + n + "\nVersion: 0\nArchitecture: all\n")})
		}
	}
	if t.Bool(1, 6, label+".bigother") {
		// a large file next to control: the control file then straddles chunk
		// boundaries of the decompressor's output
		n := 20000 + t.Draw(50000, label+".bigsize")
		others = append(others, tarFile{Name: prefix + "md5sums-big", Body: t.Sub(label + ".bigbody").Bytes(n)})
	}
	pos := t.Draw(len(others)+1, label+".ctlpos")
	ctl := tarFile{Name: p.CtlName, Body: []byte(p.Model.render())}
	if len(ctl.Body) > 600 && t.Bool(1, 12, label+".straddle") {
		// the control file lies ACROSS a 32 KiB boundary of the uncompressed tar
		// stream (where an inflater hands out its window): one file before it, sized
		// so that the boundary falls 512 bytes into the control file's content
		k := 1 + t.Draw(2, label+".straddle.k")
		n := 32768*k - 1536
		others = []tarFile{{Name: prefix + "md5sums", Body: t.Sub(label + ".straddlebody").Bytes(n)}}
		pos = 1
	}
	p.Files = append(append(append([]tarFile{}, others[:pos]...), ctl), others[pos:]...)
	return p
}

func genDataPayload(t *rt.Tape, label string) dataPayload {
	d := dataPayload{}
	n := t.Range(0, 6, label+".nfiles")
	if t.Bool(1, 50, label+".manyfiles") {
		n = 150 + t.Draw(400, label+".manyfiles.n")
	}
	if n > 0 {
		d.Files = append(d.Files, tarFile{Name: "./", Dir: true})
	}
	for i := 0; i < n; i++ {
		var size int
		switch t.Weighted([]int{1, 5, 2, 1}, label+".sizeclass") {
		case 0:
			size = 0
		case 1:
			size = t.Range(1, 400, label+".size")
		case 2:
			size = t.Range(401, 9000, label+".size")
		case 3:
			size = t.Range(9001, 66000, label+".size")
		}
		d.Files = append(d.Files, tarFile{Name: fmt.Sprintf("./usr/share/%s/file%d", genFrom(t, "abcdefgh", 1, 5, label+".dir"), i), Body: t.Sub(label + ".body").Bytes(size)})
	}
	return d
}

// ---------------------------------------------------------------------------
// codecs

var allCodecs = []string{"", "gz", "xz", "bz2", "lzma", "zst"}

func codecExt(c string) string {
	if c == "" {
		return ""
	}
	return "." + c
}

var zstdEnc *zstd.Encoder

func compressWith(codec string, data []byte) []byte {
	switch codec {
	case "":
		return data
	case "gz":
		var b bytes.Buffer
		w, _ := gzip.NewWriterLevel(&b, gzip.BestSpeed)
		w.Write(data)
		w.Close()
		return b.Bytes()
	case "zst":
		if zstdEnc == nil {
			var err error
			zstdEnc, err = zstd.NewWriter(nil, zstd.WithEncoderConcurrency(1), zstd.WithEncoderLevel(zstd.SpeedFastest))
			if err != nil {
				panic(err)
			}
		}
		return zstdEnc.EncodeAll(data, nil)
	case "lzma":
		var b bytes.Buffer
		w := lzma.NewWriterSizeLevel(&b, int64(len(data)), 1)
		w.Write(data)
		w.Close()
		return b.Bytes()
	}
	panic("no in-process encoder for " + codec)
}

// compressMaybeMulti: a gzip member may consist of several gzip streams
// back to back (RFC 1952 section 2.2; dpkg-deb reads such packages).  One run
// in four splits the tar, preferably on a 512-byte tar block boundary.
func compressMaybeMulti(t *rt.Tape, r *rt.Run, codec string, tarBytes []byte, label string) []byte {
	if codec != "gz" || len(tarBytes) < 1024 || !t.Bool(1, 4, label) {
		return compressWith(codec, tarBytes)
	}
	cut := 512 * (1 + t.Draw(len(tarBytes)/512-1, label+".cut"))
	if t.Bool(1, 3, label+".odd") {
		cut = 1 + t.Draw(len(tarBytes)-1, label+".oddcut")
	}
	r.Probe("gzip-member-with-several-streams")
	return append(compressWith("gz", tarBytes[:cut]), compressWith("gz", tarBytes[cut:])...)
}

// --- fixture corpus for xz / bz2 --------------------------------------------

type ctlFixture struct {
	Payload ctlPayload
	XZ, BZ2 []byte
}
type dataFixture struct {
	Payload dataPayload
	XZ, BZ2 []byte
}

var ctlFixtures []ctlFixture
var dataFixtures []dataFixture

const nFixtures = 10

func loadFixtures() {
	if ctlFixtures != nil {
		return
	}
	for i := 0; i < nFixtures; i++ {
		var cf ctlFixture
		var df dataFixture
		b, err := fixturesFS.ReadFile(fmt.Sprintf("fixtures/payloads/ctl-%d.json", i))
		if err != nil {
			die2("fixture corpus missing (run `vh mkfixtures`): %v", err)
		}
		if err := json.Unmarshal(b, &cf.Payload); err != nil {
			die2("%v", err)
		}
		cf.XZ, _ = fixturesFS.ReadFile(fmt.Sprintf("fixtures/payloads/ctl-%d.tar.xz", i))
		cf.BZ2, _ = fixturesFS.ReadFile(fmt.Sprintf("fixtures/payloads/ctl-%d.tar.bz2", i))
		b, err = fixturesFS.ReadFile(fmt.Sprintf("fixtures/payloads/data-%d.json", i))
		if err != nil {
			die2("%v", err)
		}
		if err := json.Unmarshal(b, &df.Payload); err != nil {
			die2("%v", err)
		}
		df.XZ, _ = fixturesFS.ReadFile(fmt.Sprintf("fixtures/payloads/data-%d.tar.xz", i))
		df.BZ2, _ = fixturesFS.ReadFile(fmt.Sprintf("fixtures/payloads/data-%d.tar.bz2", i))
		if len(cf.XZ) == 0 || len(cf.BZ2) == 0 || len(df.XZ) == 0 || len(df.BZ2) == 0 {
			die2("fixture %d incomplete", i)
		}
		ctlFixtures = append(ctlFixtures, cf)
		dataFixtures = append(dataFixtures, df)
	}
}

func mkfixturesMain(args []string) {
	dir := "fixtures/payloads"
	if len(args) > 0 {
		dir = args[0]
	}
	os.MkdirAll(dir, 0o755)
	run := func(tool, in, out string) {
		f, err := os.Open(in)
		if err != nil {
			die2("%v", err)
		}
		defer f.Close()
		o, _ := os.Create(out)
		defer o.Close()
		cmd := exec.Command(tool, "-c")
		cmd.Stdin, cmd.Stdout = f, o
		if err := cmd.Run(); err != nil {
			die2("%s: %v", tool, err)
		}
	}
	for i := 0; i < nFixtures; i++ {
		t := rt.NewTape(uint64(7000 + i))
		cp := genCtlPayload(t, "fx.ctl")
		dp := genDataPayload(t, "fx.data")
		for _, x := range []struct {
			name string
			v    interface{}
			tar  []byte
		}{{fmt.Sprintf("ctl-%d", i), cp, buildTar(cp.Files)}, {fmt.Sprintf("data-%d", i), dp, buildTar(dp.Files)}} {
			b, _ := json.MarshalIndent(x.v, "", " ")
			os.WriteFile(filepath.Join(dir, x.name+".json"), b, 0o644)
			tp := filepath.Join(dir, x.name+".tar")
			os.WriteFile(tp, x.tar, 0o644)
			run("xz", tp, tp+".xz")
			run("bzip2", tp, tp+".bz2")
			os.Remove(tp)
		}
	}
	fmt.Println("fixtures written to", dir)
}

// ---------------------------------------------------------------------------
// package assembly

type debPkg struct {
	Ctl                              ctlPayload
	Data                             dataPayload
	CtlCodec                         string
	DataCodec                        string
	BinVer                           string // content of debian-binary
	Members                          []*arMember
	CtlMember, DataMember, BinMember *arMember
	Image                            []byte
}

// genDeb draws a package.  pair selects the (control codec, data codec)
// combination (0..35) so that all 36 are covered by construction.
// debDataFirst: the next package built has its data member before its control
// member (set by checks for which the stored order is the adversary's choice).
var debDataFirst bool

func genDeb(t *rt.Tape, r *rt.Run, pair int, codecs []string) *debPkg {
	loadFixtures()
	p := &debPkg{BinVer: "2.0\n"}
	p.CtlCodec = codecs[(pair/len(codecs))%len(codecs)]
	p.DataCodec = codecs[pair%len(codecs)]
	var ctlBytes, dataBytes []byte
	switch p.CtlCodec {
	case "xz", "bz2":
		f := ctlFixtures[t.Draw(len(ctlFixtures), "deb.ctlfix")]
		p.Ctl = f.Payload
		ctlBytes = f.XZ
		if p.CtlCodec == "bz2" {
			ctlBytes = f.BZ2
		}
	default:
		p.Ctl = genCtlPayload(t, "deb.ctl")
		ctlBytes = compressMaybeMulti(t, r, p.CtlCodec, buildTar(p.Ctl.Files), "deb.ctlmulti")
	}
	switch p.DataCodec {
	case "xz", "bz2":
		f := dataFixtures[t.Draw(len(dataFixtures), "deb.datafix")]
		p.Data = f.Payload
		dataBytes = f.XZ
		if p.DataCodec == "bz2" {
			dataBytes = f.BZ2
		}
	default:
		p.Data = genDataPayload(t, "deb.data")
		dataBytes = compressMaybeMulti(t, r, p.DataCodec, buildTar(p.Data.Files), "deb.datamulti")
	}
	// numeric header columns blank-padded (dpkg-deb) or zero-padded (other ar
	// writers): both are decimal
	zeroPad := t.Bool(1, 6, "deb.zeropad")
	mk := func(name string, data []byte) *arMember {
		return &arMember{Name: name, RawName: name, Timestamp: 1_600_000_000, Mode: "100644", Data: data, ZeroPad: zeroPad, UID: 1000, GID: 1000}
	}
	p.BinMember = mk("debian-binary", []byte(p.BinVer))
	p.CtlMember = mk("control.tar"+codecExt(p.CtlCodec), ctlBytes)
	p.DataMember = mk("data.tar"+codecExt(p.DataCodec), dataBytes)
	p.Members = []*arMember{p.BinMember, p.CtlMember, p.DataMember}
	if debDataFirst {
		// not the order deb(5) prescribes, but one the loader accepts (it finds the
		// members by name): whoever stores the package chooses the order
		p.Members = []*arMember{p.BinMember, p.DataMember, p.CtlMember}
	}
	// extra '_'-prefixed members in any position after debian-binary
	for i, n := 0, t.Weighted([]int{4, 2, 1}, "deb.nextra"); i < n; i++ {
		x := mk(fmt.Sprintf("_extra%d", i), t.Sub("deb.extra").Bytes(t.Range(0, 50, "deb.extralen")))
		pos := 1 + t.Draw(len(p.Members), "deb.extrapos")
		p.Members = append(p.Members[:pos], append([]*arMember{x}, p.Members[pos:]...)...)
		r.Probe("extra-underscore-member")
	}
	p.Image = renderAr(p.Members)
	return p
}
