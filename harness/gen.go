package main

import (
	"fmt"
	"strings"

	"pault.ag/go/debian/version"
	"verifsim/rt"
)

// small shared generators; every choice goes through the tape.

const lowerAlnum = "abcdefghijklmnopqrstuvwxyz0123456789"

func genFrom(t *rt.Tape, alphabet string, lo, hi int, label string) string {
	n := t.Range(lo, hi, label+".len")
	b := make([]byte, n)
	for i := range b {
		b[i] = alphabet[t.Draw(len(alphabet), label)]
	}
	return string(b)
}

var pkgNames = []string{"hello", "libfoo", "dput-ng", "golang-1.19", "x", "zlib1g", "python3-foo.bar", "gcc-12+cross"}

func genPkgName(t *rt.Tape, label string) string {
	if t.Bool(2, 3, label+".stock") {
		return pkgNames[t.Draw(len(pkgNames), label+".pick")]
	}
	return genFrom(t, "abcdefghijklmnopqrstuvwxyz", 1, 1, label+".c0") + genFrom(t, lowerAlnum+"+-.", 1, 12, label)
}

// mVersion is the model of a Debian version: the parts written, and the text.
type mVersion struct {
	Epoch    uint
	Upstream string
	Revision string
	Text     string
}

// genVersion produces a valid Debian version string and its parts.
func genVersion(t *rt.Tape, label string) mVersion {
	v := mVersion{}
	s := ""
	if t.Bool(1, 4, label+".epoch") {
		v.Epoch = uint(t.Range(0, 12, label+".epochv"))
		s = fmt.Sprintf("%d:", v.Epoch)
	}
	u := genFrom(t, "0123456789", 1, 2, label+".u0")
	for i, n := 0, t.Range(0, 3, label+".uparts"); i < n; i++ {
		u += string(".+~"[t.Draw(3, label+".usep")]) + genFrom(t, lowerAlnum, 1, 4, label+".u")
	}
	v.Upstream = u
	s += u
	if t.Bool(2, 3, label+".rev") {
		v.Revision = genFrom(t, lowerAlnum+"+.~", 1, 6, label+".r")
		s += "-" + v.Revision
	}
	v.Text = s
	return v
}

func verEq(got version.Version, want mVersion) bool {
	return got.Epoch == want.Epoch && got.Version == want.Upstream && got.Revision == want.Revision
}

var words = []string{"fix", "the", "build", "on", "armhf", "closes", "new", "upstream", "release", "#123456", "--", "update", "d/control:", "é", "naïve", "日本", "a:b", "x=y", "(foo)", "[bar]", "qualità", "Å"}

func genWords(t *rt.Tape, lo, hi int, label string) string {
	n := t.Range(lo, hi, label+".n")
	w := make([]string, n)
	for i := range w {
		w[i] = words[t.Draw(len(words), label)]
	}
	return strings.Join(w, " ")
}

var people = []string{"Paul Tagliamonte <paultag@debian.org>", "Jörg Müller <jm@example.org>", "A B <a@b>", "山田太郎 <yamada@example.jp>", "O'Neil, Pat <pat@example.com>", "x <x@x>"}

func genPerson(t *rt.Tape, label string) string { return people[t.Draw(len(people), label)] }

func min(a, b int) int {
	if a < b {
		return a
	}
	return b
}

func max(a, b int) int {
	if a > b {
		return a
	}
	return b
}

func clip(s string, n int) string {
	if len(s) > n {
		return s[:n] + "…"
	}
	return s
}
