package main

// The real-execution side check of C15: independent packages loaded by parallel
// goroutines in a -race build of the uninstrumented tree (cold process first:
// lazily built or lazily extended package-level state shows only then).  This is
// observation, not simulation; the statement of C15 speaks of single loads, so
// this part goes beyond it and is reported separately in the evidence.

import (
	"bytes"
	"fmt"
	"os"
	"sync"

	"pault.ag/go/debian/deb"
	"verifsim/rt"
)

func raceC15(seed uint64, from, n int, out string) {
	loadFixtures()
	mismatches, loads := 0, 0
	first := ""
	for idx := from; idx < from+n; idx++ {
		tape := rt.NewTape(runSeed(seed, "C15race", idx))
		r := rt.NewRun(tape)
		type job struct {
			img  []byte
			pkg  string
			nfil int
			got  string
		}
		jobs := make([]*job, 6)
		for i := range jobs {
			p := genDeb(tape, r, tape.Draw(4, "pair"), []string{"", "gz"})
			jobs[i] = &job{img: p.Image, pkg: p.Ctl.Model.Package, nfil: len(p.Data.Files)}
		}
		var wg sync.WaitGroup
		start := make(chan struct{})
		for _, j := range jobs {
			wg.Add(1)
			go func(j *job) {
				defer wg.Done()
				defer func() {
					if p := recover(); p != nil {
						j.got = fmt.Sprintf("PANIC: %v", p)
					}
				}()
				<-start
				for rep := 0; rep < 2; rep++ {
					d, err := deb.Load(bytes.NewReader(j.img), "x.deb")
					if err != nil {
						j.got = "error: " + err.Error()
						return
					}
					files, ferr := readDataTar(d.Data)
					j.got = fmt.Sprintf("%s/%d/%v", d.Control.Package, len(files), ferr)
					d.Close()
				}
			}(j)
		}
		close(start)
		wg.Wait()
		for _, j := range jobs {
			loads++
			if want := fmt.Sprintf("%s/%d/<nil>", j.pkg, j.nfil); j.got != want {
				mismatches++
				if first == "" {
					first = fmt.Sprintf("task set %d: loaded in parallel %q, packaged %q", idx, j.got, want)
				}
			}
		}
	}
	res := map[string]interface{}{"task_sets": n, "packages_loaded_in_parallel": loads, "result_mismatches": mismatches, "first_mismatch": first, "gomaxprocs": 16, "race_detector": raceEnabled}
	if out != "" {
		writeJSON(out, res)
	}
	fmt.Printf("race part: %d task sets, %d packages loaded on real goroutines (GOMAXPROCS=16, race detector=%v), %d result mismatches\n", n, loads, raceEnabled, mismatches)
	if mismatches > 0 {
		os.Exit(3)
	}
}
