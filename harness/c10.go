package main

// C10  Typed Debian documents decode to exactly the fields written in them.
//
// Simulated: document author -> simulated stream (and, for the *File entry
// points, a file on the simulated file system) -> typed parser.  Knobs per
// run: the stream's delivery schedule and the SIZE OF THE CALLER'S
// bufio.Reader (16 .. 65536) - ParseControl performs two successive decodes on
// the one reader it is given, which is a buffered-stream hand-over.

import (
	"bufio"
	"crypto/sha512"
	"fmt"
	"path"
	"strings"

	"pault.ag/go/debian/control"
	"pault.ag/go/debian/deb"
	"pault.ag/go/debian/dependency"
	"verifsim/rt"
	"verifsim/simdisk"
	"verifsim/simio"
	"verifsim/simos"
)

var bufSizes = []int{4096, 16, 64, 65536, 200}

type differ struct {
	r    *rt.Run
	kind string
	doc  string
	via  string
}

func (d *differ) bad(field, format string, args ...interface{}) {
	d.r.Violate("C10/field-mismatch", d.kind+"/"+field, "[%s] %s: %s\ndocument:\n%s", d.via, field, fmt.Sprintf(format, args...), clip(d.doc, 700))
}
func (d *differ) str(field, got, want string) {
	if got != want {
		d.bad(field, "got %q want %q", clip(got, 120), clip(want, 120))
	}
}
func (d *differ) text(field, got, want string) { // multi-line: modulo one trailing newline
	if strip1(got) != strip1(want) {
		d.bad(field, "got %q want %q", clip(got, 160), clip(want, 160))
	}
}
func (d *differ) list(field string, got, want []string) {
	if !strsEq(got, want) {
		d.bad(field, "got %q want %q", got, want)
	}
}
func (d *differ) ver(field string, got interface{ String() string }, ok bool, want mVersion) {
	if !ok {
		d.bad(field, "got %v want %q", got, want.Text)
	}
}
func (d *differ) archs(field string, got []dependency.Arch, want []mArch) {
	if len(got) != len(want) {
		d.bad(field, "got %d architectures %+v want %v", len(got), got, archTexts(want))
		return
	}
	for i := range want {
		if !archEq(got[i], want[i]) {
			d.bad(field, "element %d: got %+v want %s", i, got[i], want[i].Text)
			return
		}
		// every element decodes as it would on its own, whatever its neighbours are
		var solo struct {
			A []dependency.Arch `control:"Architecture"`
		}
		if err := control.Unmarshal(&solo, strings.NewReader("Architecture: "+want[i].Text+"\n")); err == nil && len(solo.A) == 1 && solo.A[0] != got[i] {
			d.bad(field, "element %d (%s) decodes to %+v inside the list %v but to %+v on its own", i, want[i].Text, got[i], archTexts(want), solo.A[0])
			return
		}
	}
}
func (d *differ) dep(field string, got dependency.Dependency, want mDep) {
	if x := depDiff(got, want); x != "" {
		d.bad(field, "%s", x)
	}
}
func (d *differ) hashes(field string, got []control.FileHash, want []mFile, alg string, hash func(mFile) string) {
	if len(got) != len(want) {
		d.bad(field, "got %d entries want %d", len(got), len(want))
		return
	}
	for i, f := range want {
		g := got[i]
		if g.Hash != hash(f) || g.Size != int64(f.Size) || g.Filename != f.Name || g.Algorithm != alg {
			d.bad(field, "entry %d: got {alg=%s %s %d %s} want {alg=%s %s %d %s}", i, g.Algorithm, clip(g.Hash, 12), g.Size, g.Filename, alg, clip(hash(f), 12), f.Size, f.Name)
			return
		}
	}
}

func fhMD5(in []control.MD5FileHash) []control.FileHash {
	out := []control.FileHash{}
	for _, x := range in {
		out = append(out, x.FileHash)
	}
	return out
}
func fhSHA1(in []control.SHA1FileHash) []control.FileHash {
	out := []control.FileHash{}
	for _, x := range in {
		out = append(out, x.FileHash)
	}
	return out
}
func fhSHA256(in []control.SHA256FileHash) []control.FileHash {
	out := []control.FileHash{}
	for _, x := range in {
		out = append(out, x.FileHash)
	}
	return out
}

// srcReader builds the caller's bufio.Reader over a simulated stream.
func srcReader(r *rt.Run, name string, data []byte, failAt int) (*bufio.Reader, *simio.Reader, int) {
	rd := simio.NewReader(r, name, data)
	if failAt >= 0 {
		rd.FailAt(failAt)
	}
	size := bufSizes[r.T.Weighted([]int{4, 2, 2, 1, 1}, "c10.bufsize")]
	r.Stats[fmt.Sprintf("bufio.%d", size)]++
	if size < 4096 {
		r.Probe("caller-bufio-smaller-than-4096")
		r.NonTrivial = true
	}
	return bufio.NewReaderSize(rd, size), rd, size
}

func c10DSC(r *rt.Run, failAt bool) {
	t := r.T
	src := genPkgName(t, "dsc.src")
	bins := genSubset(t, []string{src, src + "-dev", src + "-doc", "lib" + src + "1", src + "-dbg"}, 1, 4, "dsc.bins")
	long := t.Bool(1, 10, "dsc.longbin")
	if long {
		// a single physical line longer than any default bufio buffer
		bins = nil
		for i := 0; i < 420+t.Draw(200, "dsc.longn"); i++ {
			bins = append(bins, fmt.Sprintf("%s-bin%03d", src, i))
		}
		r.Probe("line-longer-than-4096-bytes")
	}
	m := genDSC(t, "dsc", src, bins, depOpts{Substvars: false, Stages: true, MaxRels: 4})
	if long {
		m.BinStyle = oneLine
	}
	doc := m.render()
	plain := doc
	if !failAt && t.Bool(1, 5, "c10.clearsigned") {
		// real .dsc files are clearsigned; with a nil keyring the armor is
		// stripped and the fields must be the same
		loadKeys()
		doc = string(clearsignDoc(pgpKeys[0], []byte(doc)))
		r.Probe("clearsigned-document")
	}
	_ = plain
	via := "ParseDsc"
	var got *control.DSC
	var err error
	fa := -1
	if failAt {
		fa = t.Draw(len(doc)+1, "faultpos")
	}
	p := "/srv/incoming/" + src + ".dsc"
	var task *rt.Task
	if !failAt && t.Bool(1, 4, "c10.viafile") {
		via = "ParseDscFile"
		fs := simos.New(r)
		fs.PutQuiet(p, []byte(doc))
		simos.Install(fs)
		task = r.Solo("parser", func() { got, err = control.ParseDscFile(p) })
		simos.Install(nil)
		r.Probe("via-file-entry-point")
	} else {
		br, _, size := srcReader(r, "dsc", []byte(doc), fa)
		via = fmt.Sprintf("ParseDsc/bufio=%d", size)
		task = r.Solo("parser", func() { got, err = control.ParseDsc(br, p) })
	}
	if taskTrouble(r, "C10", "dsc", task) {
		return
	}
	if failAt {
		if err == nil {
			r.Violate("C10/io-error-swallowed", "dsc", "stream failed with EIO at %d of %d but ParseDsc returned nil error", fa, len(doc))
		}
		return
	}
	if err != nil || got == nil {
		r.Violate("C10/parse-error", "dsc", "[%s] %v\ndocument:\n%s", via, err, clip(doc, 700))
		return
	}
	d := &differ{r, "dsc", doc, via}
	d.str("Filename", got.Filename, p)
	d.str("Format", got.Format, m.Format)
	d.str("Source", got.Source, m.Source)
	d.list("Binaries", got.Binaries, m.Binaries)
	d.archs("Architectures", got.Architectures, m.Archs)
	d.ver("Version", got.Version, verEq(got.Version, m.Version), m.Version)
	d.str("Origin", got.Origin, m.Origin)
	d.str("Maintainer", got.Maintainer, m.Maintainer)
	d.list("Uploaders", got.Uploaders, m.Uploaders)
	d.str("Homepage", got.Homepage, m.Homepage)
	d.str("StandardsVersion", got.StandardsVersion, m.Standards)
	d.dep("BuildDepends", got.BuildDepends, m.BD)
	d.dep("BuildDependsArch", got.BuildDependsArch, m.BDA)
	d.dep("BuildDependsIndep", got.BuildDependsIndep, m.BDI)
	d.hashes("ChecksumsSha1", fhSHA1(got.ChecksumsSha1), m.Files, "sha1", mFile.sha1)
	d.hashes("ChecksumsSha256", fhSHA256(got.ChecksumsSha256), m.Files, "sha256", mFile.sha256)
	d.hashes("Files", fhMD5(got.Files), m.Files, "md5", mFile.md5)
	for _, x := range m.Extra {
		d.str("unknown:"+x[0], got.Values[x[0]], x[1])
	}
	// accessors
	d.list("Maintainers()", got.Maintainers(), append([]string{m.Maintainer}, m.Uploaders...))
	wantAll := false
	for _, a := range m.Archs {
		if a.Text == "all" {
			wantAll = true
		}
	}
	if got.HasArchAll() != wantAll {
		d.bad("HasArchAll()", "got %v want %v (Architecture: %v)", got.HasArchAll(), wantAll, archTexts(m.Archs))
	}
	abs := got.AbsFiles()
	if len(abs) == len(m.Files) {
		for i, f := range m.Files {
			if abs[i].Filename != path.Join("/srv/incoming", f.Name) {
				d.bad("AbsFiles()", "entry %d: %q", i, abs[i].Filename)
			}
		}
	} else {
		d.bad("AbsFiles()", "%d entries want %d", len(abs), len(m.Files))
	}
	wantDeb, wantErr := "", true
	for _, f := range m.Files {
		if strings.Contains(f.Name, ".debian.") {
			wantDeb, wantErr = f.Name, false
			break
		}
	}
	ds, derr := got.DebianSource()
	if ds != wantDeb || (derr != nil) != wantErr {
		d.bad("DebianSource()", "got (%q,%v) want (%q, err=%v)", ds, derr, wantDeb, wantErr)
	}
	// second look: accessors only read - the fields they were derived from, and
	// the accessors called again, still agree with the model
	d.via += "/second-look-after-the-accessors"
	d.list("Uploaders", got.Uploaders, m.Uploaders)
	d.list("Binaries", got.Binaries, m.Binaries)
	d.list("Maintainers()", got.Maintainers(), append([]string{m.Maintainer}, m.Uploaders...))
	d.list("Maintainers()", got.Maintainers(), append([]string{m.Maintainer}, m.Uploaders...))
	d.archs("Architectures", got.Architectures, m.Archs)
	d.hashes("Files", fhMD5(got.Files), m.Files, "md5", mFile.md5)
	if abs2 := got.AbsFiles(); len(abs2) == len(m.Files) {
		for i, f := range m.Files {
			if abs2[i].Filename != path.Join("/srv/incoming", f.Name) {
				d.bad("AbsFiles()", "entry %d: %q", i, abs2[i].Filename)
			}
		}
	}
}

func c10Changes(r *rt.Run, failAt bool) {
	t := r.T
	m := genChanges(t, "chg")
	doc := m.render()
	if !failAt && t.Bool(1, 5, "c10.clearsigned") {
		loadKeys()
		doc = string(clearsignDoc(pgpKeys[0], []byte(doc)))
		r.Probe("clearsigned-document")
	}
	p := "/srv/incoming/" + m.Source + ".changes"
	var got *control.Changes
	var err error
	fa := -1
	if failAt {
		fa = t.Draw(len(doc)+1, "faultpos")
	}
	via := "ParseChanges"
	var task *rt.Task
	if !failAt && t.Bool(1, 4, "c10.viafile") {
		via = "ParseChangesFile"
		fs := simos.New(r)
		fs.PutQuiet(p, []byte(doc))
		simos.Install(fs)
		task = r.Solo("parser", func() { got, err = control.ParseChangesFile(p) })
		simos.Install(nil)
		r.Probe("via-file-entry-point")
	} else {
		br, _, size := srcReader(r, "changes", []byte(doc), fa)
		via = fmt.Sprintf("ParseChanges/bufio=%d", size)
		task = r.Solo("parser", func() { got, err = control.ParseChanges(br, p) })
	}
	if taskTrouble(r, "C10", "changes", task) {
		return
	}
	if failAt {
		if err == nil {
			r.Violate("C10/io-error-swallowed", "changes", "stream failed with EIO at %d of %d but ParseChanges returned nil error", fa, len(doc))
		}
		return
	}
	if err != nil || got == nil {
		r.Violate("C10/parse-error", "changes", "[%s] %v\ndocument:\n%s", via, err, clip(doc, 700))
		return
	}
	d := &differ{r, "changes", doc, via}
	d.str("Filename", got.Filename, p)
	d.str("Format", got.Format, m.Format)
	d.str("Source", got.Source, m.Source)
	d.list("Binaries", got.Binaries, m.Binaries)
	d.archs("Architectures", got.Architectures, m.Archs)
	d.ver("Version", got.Version, verEq(got.Version, m.Version), m.Version)
	d.str("Distribution", got.Distribution, m.Distribution)
	d.str("Urgency", got.Urgency, m.Urgency)
	d.str("Maintainer", got.Maintainer, m.Maintainer)
	d.str("ChangedBy", got.ChangedBy, m.ChangedBy)
	d.list("Closes", got.Closes, m.Closes)
	d.text("Changes", got.Changes, strings.Join(m.ChangesLines, "\n"))
	d.hashes("ChecksumsSha1", fhSHA1(got.ChecksumsSha1), m.Files, "sha1", mFile.sha1)
	d.hashes("ChecksumsSha256", fhSHA256(got.ChecksumsSha256), m.Files, "sha256", mFile.sha256)
	if len(got.Files) != len(m.Files) {
		d.bad("Files", "got %d entries want %d", len(got.Files), len(m.Files))
	} else {
		for i, f := range m.Files {
			g := got.Files[i]
			if g.Hash != f.md5() || g.Size != int64(f.Size) || g.Filename != f.Name || g.Component != f.Section || g.Priority != f.Priority || g.Algorithm != "md5" {
				d.bad("Files", "entry %d: got %+v want {%s %d %s %s %s}", i, g, clip(f.md5(), 12), f.Size, f.Section, f.Priority, f.Name)
				break
			}
		}
		abs := got.AbsFiles()
		for i, f := range m.Files {
			if i < len(abs) && abs[i].Filename != path.Join("/srv/incoming", f.Name) {
				d.bad("AbsFiles()", "entry %d: %q", i, abs[i].Filename)
			}
		}
	}
	// GetDSC: the .dsc the upload lists, found next to the .changes and decoded;
	// an upload without one (binary-only) is an error
	if t.Bool(1, 3, "c10.getdsc") {
		listed := ""
		for _, f := range m.Files {
			if strings.HasSuffix(f.Name, ".dsc") && listed == "" {
				listed = f.Name
			}
		}
		fs := simos.New(r)
		fs.PutQuiet(p, []byte(doc))
		dm := genDSC(t, "c10.getdsc.dsc", m.Source, []string{m.Source}, depOpts{MaxRels: 2})
		if listed != "" {
			fs.PutQuiet("/srv/incoming/"+listed, []byte(dm.render()))
		}
		// a decoy of another name in the same directory, and one of the same name elsewhere
		decoy := genDSC(t, "c10.getdsc.decoy", "decoy-"+m.Source, []string{"decoy"}, depOpts{MaxRels: 1})
		fs.PutQuiet("/srv/incoming/zz-unlisted.dsc", []byte(decoy.render()))
		if listed != "" {
			fs.PutQuiet("/"+listed, []byte(decoy.render()))
			fs.PutQuiet("/srv/"+listed, []byte(decoy.render()))
		}
		simos.Install(fs)
		var gd *control.DSC
		var gerr error
		task := r.Solo("GetDSC", func() { gd, gerr = got.GetDSC() })
		simos.Install(nil)
		if taskTrouble(r, "C10", "changes/GetDSC", task) {
			return
		}
		r.Probe("GetDSC")
		switch {
		case listed == "" && gerr == nil:
			d.bad("GetDSC()", "the upload lists no .dsc but GetDSC returned one (%q)", gd.Filename)
		case listed != "" && (gerr != nil || gd == nil):
			d.bad("GetDSC()", "the upload lists %s, which is there, but GetDSC failed: %v", listed, gerr)
		case listed != "":
			if gd.Source != dm.Source || gd.Filename != "/srv/incoming/"+listed || !verEq(gd.Version, dm.Version) {
				d.bad("GetDSC()", "listed %s: got Filename=%q Source=%q Version=%v, the file there says Source=%q Version=%s", listed, gd.Filename, gd.Source, gd.Version, dm.Source, dm.Version.Text)
			}
		}
	}
}

func c10Control(r *rt.Run, failAt bool) {
	t := r.T
	m := genControlFile(t, "ctl")
	doc := m.render()
	p := "/src/pkg/debian/control"
	var got *control.Control
	var err error
	fa := -1
	if failAt {
		fa = t.Draw(len(doc)+1, "faultpos")
	}
	via := "ParseControl"
	var task *rt.Task
	if !failAt && t.Bool(1, 4, "c10.viafile") {
		via = "ParseControlFile"
		fs := simos.New(r)
		fs.PutQuiet(p, []byte(doc))
		simos.Install(fs)
		task = r.Solo("parser", func() { got, err = control.ParseControlFile(p) })
		simos.Install(nil)
		r.Probe("via-file-entry-point")
	} else {
		br, _, size := srcReader(r, "control", []byte(doc), fa)
		via = fmt.Sprintf("ParseControl/bufio=%d", size)
		task = r.Solo("parser", func() { got, err = control.ParseControl(br, p) })
	}
	if taskTrouble(r, "C10", "control", task) {
		return
	}
	if failAt {
		if err == nil {
			r.Violate("C10/io-error-swallowed", "control", "stream failed with EIO at %d of %d but ParseControl returned nil error", fa, len(doc))
		}
		return
	}
	if err != nil || got == nil {
		r.Violate("C10/parse-error", "control", "[%s] %v\ndocument:\n%s", via, err, clip(doc, 700))
		return
	}
	d := &differ{r, "control", doc, via}
	d.str("Filename", got.Filename, p)
	s := got.Source
	d.str("Source.Source", s.Source, m.Src.Source)
	d.str("Source.Maintainer", s.Maintainer, m.Src.Maintainer)
	d.list("Source.Uploaders", s.Uploaders, m.Src.Uploaders)
	d.str("Source.Priority", s.Priority, m.Src.Priority)
	d.str("Source.Section", s.Section, m.Src.Section)
	d.dep("Source.BuildDepends", s.BuildDepends, m.Src.BD)
	d.dep("Source.BuildDependsIndep", s.BuildDependsIndep, m.Src.BDI)
	d.dep("Source.BuildConflicts", s.BuildConflicts, m.Src.BC)
	d.dep("Source.BuildConflictsIndep", s.BuildConflictsIndep, m.Src.BCI)
	d.list("Source.Maintainers()", s.Maintainers(), append([]string{m.Src.Maintainer}, m.Src.Uploaders...))
	// (accessors only read: called again, and the field looked at again)
	d.list("Source.Maintainers()/again", s.Maintainers(), append([]string{m.Src.Maintainer}, m.Src.Uploaders...))
	d.list("Source.Uploaders/after-the-accessor", s.Uploaders, m.Src.Uploaders)
	if len(got.Binaries) != len(m.Bins) {
		d.bad("Binaries", "got %d binary paragraphs want %d", len(got.Binaries), len(m.Bins))
		return
	}
	for i, b := range m.Bins {
		g := got.Binaries[i]
		pre := fmt.Sprintf("Binaries[%d].", i)
		_ = pre
		d.str("Binary.Package", g.Package, b.Package)
		d.archs("Binary.Architectures", g.Architectures, b.Archs)
		d.str("Binary.Priority", g.Priority, b.Priority)
		d.str("Binary.Section", g.Section, b.Section)
		wantEss := b.Essential != nil && *b.Essential
		if g.Essential != wantEss {
			d.bad("Binary.Essential", "got %v want %v", g.Essential, wantEss)
		}
		d.text("Binary.Description", g.Description, descValue(b.Synopsis, b.DescLines))
		d.dep("Binary.Depends", g.Depends, b.Depends)
		d.dep("Binary.Recommends", g.Recommends, b.Recommends)
		d.dep("Binary.Suggests", g.Suggests, b.Suggests)
		d.dep("Binary.Enhances", g.Enhances, b.Enhances)
		d.dep("Binary.PreDepends", g.PreDepends, b.PreDepends)
		d.dep("Binary.Breaks", g.Breaks, b.Breaks)
		d.dep("Binary.Conflicts", g.Conflicts, b.Conflicts)
		d.dep("Binary.Replaces", g.Replaces, b.Replaces)
		d.dep("Binary.BuiltUsing", g.BuiltUsing, b.BuiltUsing)
	}
}

func c10BinIndex(r *rt.Run, failAt bool) {
	t := r.T
	n := t.Range(1, 5, "pkgs.n")
	if !failAt && t.Bool(1, 60, "pkgs.many") {
		n = 100 + t.Draw(300, "pkgs.many.n")
		r.Probe("index-with-hundreds-of-stanzas")
	}
	var ms []mBinIndex
	var sb strings.Builder
	for i := 0; i < n; i++ {
		m := genBinIndex(t, "pkgs", i)
		ms = append(ms, m)
		if i > 0 {
			sb.WriteString("\n")
		}
		sb.WriteString(m.render())
	}
	doc := sb.String()
	fa := -1
	if failAt {
		fa = t.Draw(len(doc)+1, "faultpos")
	}
	br, _, size := srcReader(r, "Packages", []byte(doc), fa)
	via := fmt.Sprintf("ParseBinaryIndex/bufio=%d", size)
	var got []control.BinaryIndex
	var err error
	task := r.Solo("parser", func() { got, err = control.ParseBinaryIndex(br) })
	if taskTrouble(r, "C10", "Packages", task) {
		return
	}
	if failAt {
		if err == nil {
			r.Violate("C10/io-error-swallowed", "Packages", "stream failed with EIO at %d of %d but ParseBinaryIndex returned nil error and %d stanzas", fa, len(doc), len(got))
		}
		return
	}
	if err != nil {
		r.Violate("C10/parse-error", "Packages", "[%s] %v\ndocument:\n%s", via, err, clip(doc, 700))
		return
	}
	d := &differ{r, "Packages", doc, via}
	if len(got) != len(ms) {
		d.bad("stanzas", "got %d want %d", len(got), len(ms))
		return
	}
	for i, m := range ms {
		g := got[i]
		d.doc = m.render()
		d.str("Package", g.Package, m.Package)
		d.str("Source", g.Source, m.Source)
		d.ver("Version", g.Version, verEq(g.Version, m.Version), m.Version)
		if g.InstalledSize != m.InstalledSize {
			d.bad("InstalledSize", "got %d want %d", g.InstalledSize, m.InstalledSize)
		}
		if g.Size != m.Size {
			d.bad("Size", "got %d want %d", g.Size, m.Size)
		}
		d.str("Maintainer", g.Maintainer, m.Maintainer)
		if !archEq(g.Architecture, m.Arch) {
			d.bad("Architecture", "got %+v want %s", g.Architecture, m.Arch.Text)
		}
		d.str("MultiArch", g.MultiArch, m.MultiArch)
		d.text("Description", g.Description, descValue(m.Synopsis, m.DescLines))
		d.str("Homepage", g.Homepage, m.Homepage)
		d.str("DescriptionMD5", g.DescriptionMD5, m.DescMD5)
		d.list("Tags", g.Tags, m.Tags)
		d.str("Section", g.Section, m.Section)
		d.str("Priority", g.Priority, m.Priority)
		d.str("Filename", g.Filename, m.Filename)
		d.str("MD5sum", g.MD5sum, m.MD5)
		d.str("SHA1", g.SHA1, m.SHA1)
		d.str("SHA256", g.SHA256, m.SHA256)
		d.list("DebugBuildIds", g.DebugBuildIds, m.BuildIds)
		d.dep("GetDepends()", g.GetDepends(), m.Depends)
		d.dep("GetPreDepends()", g.GetPreDepends(), m.PreDepends)
		d.dep("GetConflicts()", g.GetConflicts(), m.Conflicts)
		d.dep("GetBreaks()", g.GetBreaks(), m.Breaks)
		d.dep("GetReplaces()", g.GetReplaces(), m.Replaces)
		d.dep("GetSuggests()", g.GetSuggests(), m.Suggests)
		d.dep("GetBuiltUsing()", g.GetBuiltUsing(), m.BuiltUsing)
		wantSrc := m.Package
		if m.Source != "" {
			wantSrc = strings.SplitN(m.Source, " ", 2)[0]
		}
		d.str("SourcePackage()", g.SourcePackage(), wantSrc)
	}
}

func c10SrcIndex(r *rt.Run, failAt bool) {
	t := r.T
	n := t.Range(1, 4, "srcs.n")
	var ms []mSrcIndex
	var sb strings.Builder
	for i := 0; i < n; i++ {
		m := genSrcIndex(t, "srcs", i)
		ms = append(ms, m)
		if i > 0 {
			sb.WriteString("\n")
		}
		sb.WriteString(m.render())
	}
	doc := sb.String()
	fa := -1
	if failAt {
		fa = t.Draw(len(doc)+1, "faultpos")
	}
	br, _, size := srcReader(r, "Sources", []byte(doc), fa)
	via := fmt.Sprintf("ParseSourceIndex/bufio=%d", size)
	var got []control.SourceIndex
	var err error
	task := r.Solo("parser", func() { got, err = control.ParseSourceIndex(br) })
	if taskTrouble(r, "C10", "Sources", task) {
		return
	}
	if failAt {
		if err == nil {
			r.Violate("C10/io-error-swallowed", "Sources", "stream failed with EIO at %d of %d but ParseSourceIndex returned nil error and %d stanzas", fa, len(doc), len(got))
		}
		return
	}
	if err != nil {
		r.Violate("C10/parse-error", "Sources", "[%s] %v\ndocument:\n%s", via, err, clip(doc, 700))
		return
	}
	d := &differ{r, "Sources", doc, via}
	if len(got) != len(ms) {
		d.bad("stanzas", "got %d want %d", len(got), len(ms))
		return
	}
	for i, m := range ms {
		g := got[i]
		d.doc = m.render()
		d.str("Package", g.Package, m.Package)
		d.list("Binaries", g.Binaries, m.Binaries)
		d.ver("Version", g.Version, verEq(g.Version, m.Version), m.Version)
		d.str("Maintainer", g.Maintainer, m.Maintainer)
		d.str("Uploaders", g.Uploaders, m.Uploaders)
		d.archs("Architecture", g.Architecture, m.Archs)
		d.str("StandardsVersion", g.StandardsVersion, m.Standards)
		d.str("Format", g.Format, m.Format)
		d.hashes("Files", fhMD5(g.Files), m.Files, "md5", mFile.md5)
		d.hashes("ChecksumsSha1", fhSHA1(g.ChecksumsSha1), m.Files, "sha1", mFile.sha1)
		d.hashes("ChecksumsSha256", fhSHA256(g.ChecksumsSha256), m.Files, "sha256", mFile.sha256)
		d.str("VcsBrowser", g.VcsBrowser, m.VcsBrowser)
		d.str("VcsGit", g.VcsGit, m.VcsGit)
		d.str("Homepage", g.Homepage, m.Homepage)
		d.str("Directory", g.Directory, m.Directory)
		d.str("Priority", g.Priority, m.Priority)
		d.str("Section", g.Section, m.Section)
		d.dep("GetBuildDepends()", g.GetBuildDepends(), m.BD)
		d.dep("GetBuildDependsArch()", g.GetBuildDependsArch(), m.BDA)
		d.dep("GetBuildDependsIndep()", g.GetBuildDependsIndep(), m.BDI)
	}
}

// c10Relative: the *File entry points take relative names, which mean "in the
// working directory of the process NOW".  Three directories hold files of the
// same names with different contents; the process changes directory between
// the calls (a tape-chosen walk, entry points mixed): each call decodes the
// file of the directory it is made in and reports that file's absolute name.
func c10Relative(r *rt.Run) {
	t := r.T
	fs := simos.New(r)
	dirs := []string{"/work/alpha", "/work/beta", "/srv/queue/gamma"}
	type set struct {
		dsc mDSC
		chg mChanges
		ctl mControlFile
	}
	sets := make([]set, len(dirs))
	for i, d := range dirs {
		src := genPkgName(t, "c10.rel.src") + fmt.Sprintf("%c", 'a'+i)
		sets[i].dsc = genDSC(t, "c10.rel.dsc", src, []string{src}, depOpts{MaxRels: 2})
		sets[i].chg = genChanges(t, "c10.rel.chg")
		sets[i].ctl = genControlFile(t, "c10.rel.ctl")
		fs.PutQuiet(d+"/upload.dsc", []byte(sets[i].dsc.render()))
		fs.PutQuiet(d+"/upload.changes", []byte(sets[i].chg.render()))
		fs.PutQuiet(d+"/debian/control", []byte(sets[i].ctl.render()))
	}
	simos.Install(fs)
	defer simos.Install(nil)
	r.Probe("relative-names-after-a-change-of-directory")
	for step, n := 0, 3+t.Draw(4, "c10.rel.steps"); step < n; step++ {
		i := t.Draw(len(dirs), "c10.rel.dir")
		fs.Chdir(dirs[i])
		kind := t.Draw(3, "c10.rel.kind")
		rel := []string{"upload.dsc", "upload.changes", "debian/control"}[kind]
		if t.Bool(1, 4, "c10.rel.dotslash") {
			rel = "./" + rel
		}
		wantName := dirs[i] + "/" + strings.TrimPrefix(rel, "./")
		var gotName, gotSrc, wantSrc string
		var err error
		task := r.Solo("parser", func() {
			switch kind {
			case 0:
				var d *control.DSC
				if d, err = control.ParseDscFile(rel); err == nil {
					gotName, gotSrc = d.Filename, d.Source+" "+d.Version.String()
				}
				wantSrc = sets[i].dsc.Source + " " + sets[i].dsc.Version.Text
			case 1:
				var c *control.Changes
				if c, err = control.ParseChangesFile(rel); err == nil {
					gotName, gotSrc = c.Filename, c.Source+" "+c.Version.String()
				}
				wantSrc = sets[i].chg.Source + " " + sets[i].chg.Version.Text
			case 2:
				var c *control.Control
				if c, err = control.ParseControlFile(rel); err == nil {
					gotName, gotSrc = c.Filename, c.Source.Source
				}
				wantSrc = sets[i].ctl.Src.Source
			}
		})
		key := []string{"ParseDscFile", "ParseChangesFile", "ParseControlFile"}[kind] + "/relative-name"
		if taskTrouble(r, "C10", key, task) {
			return
		}
		if err != nil {
			r.Violate("C10/parse-error", key, "step %d: in %s, %q: %v", step, dirs[i], rel, err)
			return
		}
		if gotName != wantName {
			r.Violate("C10/field-mismatch", key+"/Filename", "step %d: the process is in %s and parses %q: Filename=%q want %q", step, dirs[i], rel, gotName, wantName)
			return
		}
		if kind != 2 && strings.ReplaceAll(gotSrc, " 0:", " ") != strings.ReplaceAll(wantSrc, " 0:", " ") && gotSrc != wantSrc {
			r.Violate("C10/field-mismatch", key+"/wrong-file-decoded", "step %d: the process is in %s and parses %q: decoded %q, the file there says %q", step, dirs[i], rel, gotSrc, wantSrc)
			return
		}
		if kind == 2 && gotSrc != wantSrc {
			r.Violate("C10/field-mismatch", key+"/wrong-file-decoded", "step %d: the process is in %s and parses %q: decoded source %q, the file there says %q", step, dirs[i], rel, gotSrc, wantSrc)
			return
		}
	}
}

// c10Concurrent: several callers decode documents of the same kind at the same
// time, interleaved at the instrumented loop heads and function entries and at
// every stream read - and they do so FIRST in the run, so that in a cold-start
// run whatever the library sets up on first use of a type is set up under this
// schedule.  Afterwards each document is decoded alone: the results must agree.
func c10Concurrent(r *rt.Run) {
	t := r.T
	entry := []string{"ParseDsc", "ParseChanges", "ParseControl", "ParseBinaryIndex", "ParseSourceIndex"}[t.Draw(5, "c10.conc.kind")]
	n := 2 + t.Draw(2, "c10.conc.callers")
	docs := make([][]byte, n)
	for i := range docs {
		if i > 0 && t.Bool(1, 2, "c10.conc.samedoc") {
			docs[i] = docs[0]
		} else {
			docs[i] = c18Seed(t, r, entry)
		}
	}
	sites := map[int]bool{}
	sub := t.Sub("c10.conc.sites")
	for i := 0; i < rt.TotalSites(); i++ {
		if sub.Intn(2) == 0 {
			sites[i] = true
		}
	}
	r.SetYieldSites(sites)
	r.Sticky = t.Draw(3, "sched.sticky")
	together := make([]c18Result, n)
	tasks := make([]*rt.Task, n)
	for i := range docs {
		i := i
		rd := simio.NewFixedReader(r, fmt.Sprintf("doc%d", i), docs[i], []int{0, 1, 64}[t.Draw(3, "c10.conc.chunk")], false)
		tasks[i] = r.Go(fmt.Sprintf("P%d", i), func() { together[i] = c18Invoke(entry, docs[i], rd) })
	}
	r.Sched()
	r.SetYieldSites(nil)
	r.Probe("same-kind-decoded-by-concurrent-callers-first-thing-in-the-run")
	for i := range docs {
		if taskTrouble(r, "C10", entry+"/concurrent-callers", tasks[i]) {
			return
		}
	}
	for i := range docs {
		var alone c18Result
		rd := simio.NewFixedReader(r, fmt.Sprintf("alone%d", i), docs[i], 0, false)
		task := r.Solo("alone", func() { alone = c18Invoke(entry, docs[i], rd) })
		if taskTrouble(r, "C10", entry+"/alone", task) {
			return
		}
		if alone.Err != "" {
			r.Violate("C10/parse-error", entry+"/generated-document", "%s\ndocument:\n%s", alone.Err, clip(string(docs[i]), 500))
			return
		}
		if together[i].Value != alone.Value || together[i].Err != alone.Err {
			r.Violate("C10/result-depends-on-concurrent-callers", entry, "caller %d of %d decoding at the same time got %s (err %q); the same document decoded alone afterwards gives %s", i, n, clip(together[i].Value, 300), together[i].Err, clip(alone.Value, 300))
			return
		}
	}
}

// c10DebControl: the control file of a .deb, decoded by deb.Load, is the sixth
// document kind of the statement: every field equals the packaged paragraph.
func c10DebControl(r *rt.Run) {
	t := r.T
	p := genDeb(t, r, t.Draw(9, "c10.deb.pair"), []string{"", "gz", "zst"})
	disk := simdisk.New(r, "deb", p.Image)
	disk.DrawProfile()
	var d *deb.Deb
	var err error
	task := r.Solo("loader", func() { d, err = deb.Load(typedReaderAt(r, p.Image, disk), "/pool/x.deb") })
	if taskTrouble(r, "C10", "deb-control", task) {
		return
	}
	key := "deb-control/" + p.CtlCodec
	if err != nil || d == nil {
		r.Violate("C10/parse-error", key, "well-formed package rejected: %v", err)
		return
	}
	if diff := controlDiff(&d.Control, &p.Ctl.Model); diff != "" {
		r.Violate("C10/field-mismatch", key+"/"+fieldOf(diff), "%s\ncontrol file (%d bytes, %d files in control.tar%s):\n%s", diff, len(p.Ctl.Model.render()), len(p.Ctl.Files), codecExt(p.CtlCodec), clip(p.Ctl.Model.render(), 500))
	}
	wantSrc := p.Ctl.Model.Source
	if wantSrc == "" {
		wantSrc = p.Ctl.Model.Package
	}
	if got := d.Control.SourceName(); got != wantSrc {
		r.Violate("C10/field-mismatch", key+"/SourceName()", "SourceName()=%q want %q", got, wantSrc)
	}
	d.Close()
	r.Probe("control-file-of-a-deb")
}

// c10UserIndex is a caller's own stanza type: the raw paragraph, one field of its
// own, and control.BestChecksums embedded anonymously (the way that helper is
// meant to be used).
type c10UserIndex struct {
	control.Paragraph
	Package string
	control.BestChecksums
}

// c10Embedded decodes Sources-like stanzas into the caller's own type and asks
// the best-checksum selector.
func c10Embedded(r *rt.Run) {
	t := r.T
	n := 1 + t.Draw(3, "c10.emb.n")
	var sb strings.Builder
	var models [][]mFile
	for i := 0; i < n; i++ {
		files := genFiles(t, fmt.Sprintf("pkg%d_1.0", i), "c10.emb.files", 1)
		models = append(models, files)
		w := &docWriter{}
		w.f("Package", fmt.Sprintf("pkg%d", i))
		has512 := t.Bool(1, 2, "c10.emb.512")
		w.files("Checksums-Sha256", files, mFile.sha256, false)
		if has512 {
			w.files("Checksums-Sha512", files, func(f mFile) string { return fmt.Sprintf("%x", sha512.Sum512(f.Content)) }, false)
		}
		sb.WriteString(w.String())
		sb.WriteString("\n")
	}
	doc := sb.String()
	var got []c10UserIndex
	var err error
	task := r.Solo("parser", func() { err = control.Unmarshal(&got, simio.NewReader(r, "index", []byte(doc))) })
	if taskTrouble(r, "C10", "user-type/embedded-BestChecksums", task) {
		return
	}
	r.Probe("user-type-embedding-BestChecksums")
	if err != nil || len(got) != n {
		r.Violate("C10/parse-error", "user-type/embedded-BestChecksums", "err=%v stanzas=%d want %d\ndocument:\n%s", err, len(got), n, clip(doc, 500))
		return
	}
	for i, g := range got {
		best := g.Checksums()
		if len(best) != len(models[i]) {
			r.Violate("C10/field-mismatch", "user-type/embedded-BestChecksums/Checksums()", "stanza %d: Checksums() has %d entries, the stanza lists %d files (ChecksumsSha256=%d ChecksumsSha512=%d)", i, len(best), len(models[i]), len(g.ChecksumsSha256), len(g.ChecksumsSha512))
			return
		}
		for j, f := range models[i] {
			if best[j].Filename != f.Name || best[j].Size != int64(f.Size) {
				r.Violate("C10/field-mismatch", "user-type/embedded-BestChecksums/Checksums()", "stanza %d entry %d: got {%s %d}, want {%s %d}", i, j, best[j].Filename, best[j].Size, f.Name, f.Size)
				return
			}
		}
	}
}

func runC10(r *rt.Run, tier string) {
	t := r.T
	if t.Bool(1, 16, "c10.part-embedded") {
		r.Stats["part.user-type-embedding-BestChecksums"]++
		c10Embedded(r)
		return
	}
	if t.Bool(1, 10, "c10.part-debcontrol") {
		r.Stats["kind.deb-control"]++
		c10DebControl(r)
		return
	}
	if t.Bool(1, 12, "c10.part-concurrent") {
		r.Stats["part.concurrent-callers"]++
		c10Concurrent(r)
		return
	}
	if t.Bool(1, 12, "c10.part-relative") {
		r.Stats["part.relative-names"]++
		c10Relative(r)
		return
	}
	// 1..3 documents of (usually) different kinds are parsed one after the
	// other in the same run: what one kind leaves behind in the process must
	// not change how the next one is read
	ndocs := 1 + t.Weighted([]int{3, 2, 1}, "c10.ndocs")
	if ndocs > 1 {
		r.Probe("several-document-kinds-in-one-run")
	}
	for i := 0; i < ndocs; i++ {
		kind := t.Draw(5, "c10.kind")
		failAt := i == 0 && t.Bool(1, 6, "config.faulty")
		if failAt {
			r.Stats["config.faulty"]++
		} else {
			r.Stats["config.faultfree"]++
		}
		r.Stats["kind."+[]string{"dsc", "changes", "control", "Packages", "Sources"}[kind]]++
		switch kind {
		case 0:
			c10DSC(r, failAt)
		case 1:
			c10Changes(r, failAt)
		case 2:
			c10Control(r, failAt)
		case 3:
			c10BinIndex(r, failAt)
		case 4:
			c10SrcIndex(r, failAt)
		}
	}
}

func init() {
	register(&Prop{
		ID: "C10", Level: "exploration", Variant: "I", Design: "DESIGN.md §5 C10",
		Rule:      "Each run draws a model of one document kind (.dsc, .changes, debian/control with 1..4 binaries, Packages with 1..5 stanzas, Sources with 1..4 stanzas), renders it with an independent renderer in the layout dpkg-dev/apt write (comma and space lists single-line or folded, blank-separated lists without a delimiter tag - Architecture, Closes - also with runs of blanks, uploaders with UTF-8 names, file lists as leading-newline blocks of 'hash size [section priority] name', dependency fields single-line or folded, unknown fields, comments and 1..2 separating blank lines in debian/control), and parses it through the typed entry point over a simulated stream wrapped in a caller bufio.Reader of 16, 64, 200, 4096 or 65536 bytes, or through the *File entry point on the simulated file system. One sixth of the runs inject EIO at byte k. Every typed field and derived accessor is compared with the model. Further parts: relative names given to the *File entry points while the simulated process changes directory; 2..3 concurrent callers decoding documents of one kind first thing in the run - also in cold-start runs (one fresh process per run), where first-use initialisation inside the library happens under the run's schedule.",
		Run:       runC10,
		QuickRuns: 300000, QuickSecs: 40, ThoroughRuns: 4_000_000, ThoroughSecs: 900,
		ColdQuick: 320, ColdThorough: 6400, ColdForce: map[string]int{"c10.part-concurrent": 11},
		Components: map[string]interface{}{
			"real_instrumented": []string{"pault.ag/go/debian/control (ParseDsc[File], ParseChanges[File], ParseControl[File], ParseBinaryIndex, ParseSourceIndex, struct tags, FileHash parsers, accessors)", "pault.ag/go/debian/dependency, version"},
			"stub":              []string{"simio.Reader + caller bufio.Reader size knob", "verifsim/simos for the *File entry points"},
		},
		Assumptions: []string{"the .deb control file kind of this property is exercised by C14's check", "two-part architecture names are compared on OS and CPU only"},
	})
	propProbes["C10"] = []string{"user-type-embedding-BestChecksums", "index-with-hundreds-of-stanzas", "control-file-of-a-deb", "GetDSC", "same-kind-decoded-by-concurrent-callers-first-thing-in-the-run", "relative-names-after-a-change-of-directory", "clearsigned-document", "several-document-kinds-in-one-run", "line-longer-than-4096-bytes", "caller-bufio-smaller-than-4096", "via-file-entry-point"}
}
