package main

import (
	"flag"
	"fmt"
	"os"
	"time"

	"verifsim/rt"
)

// ReplayFile is the on-disk form of one failing (or sample) run.  The tape is
// the whole payload: replay = execute the property on this tape.
type ReplayFile struct {
	Property    string         `json:"property"`
	Tier        string         `json:"tier"`
	Variant     string         `json:"variant"`
	BaseSeed    uint64         `json:"base_seed"`
	RunIndex    int            `json:"run_index"`
	SweepK      int            `json:"sweep_k"`
	Class       string         `json:"class"`
	Key         string         `json:"key"`
	Msg         string         `json:"msg"`
	Tape        []uint32       `json:"tape"`
	OrigTapeLen int            `json:"original_tape_len"`
	ShrinkExecs int            `json:"shrink_executions"`
	TraceHash   string         `json:"trace_hash"`
	Choices     []string       `json:"choices,omitempty"`
	Trace       []string       `json:"trace,omitempty"`
	All         []rt.Violation `json:"all_violations,omitempty"`
	Instr       []rt.InstrInfo `json:"instrumentation,omitempty"`
	// Prelude: runs executed in the same process BEFORE the violating run, oldest
	// first.  Present when the violation needs state that earlier calls left
	// behind inside the code under test (a pool, a cache, a package variable):
	// the replay is then the whole sequence, in one fresh process.
	Prelude []PreludeRun `json:"prelude,omitempty"`
	// Cold: the run was the first and only run of its process (a cold-start run);
	// every other run is replayed in a process that was warmed up like a worker.
	Cold bool `json:"cold,omitempty"`
}

// PreludeRun is one earlier run of a history replay.  Without a tape it is
// regenerated from (base seed, run index, sweep position).
type PreludeRun struct {
	RunIndex int      `json:"run_index"`
	SweepK   int      `json:"sweep_k"`
	Tape     []uint32 `json:"tape,omitempty"`
}

func hasClass(vs []rt.Violation, class string) *rt.Violation {
	for i := range vs {
		if vs[i].Class == class {
			return &vs[i]
		}
	}
	return nil
}

func hasClassKey(vs []rt.Violation, class, key string) *rt.Violation {
	for i := range vs {
		if vs[i].Class == class && vs[i].Key == key {
			return &vs[i]
		}
	}
	return nil
}

// shrinkTape minimises tape while a violation of the same class persists.
func shrinkTape(p *Prop, tier string, tape []uint32, class, key string, budget time.Duration) ([]uint32, int) {
	execs := 0
	start := time.Now()
	fails := func(t []uint32) bool {
		execs++
		res := execRun(p, rt.NewReplayTape(t), tier, false)
		return hasClassKey(res.Violations, class, key) != nil
	}
	over := func() bool { return time.Since(start) > budget || execs > 20000 }
	cur := append([]uint32(nil), tape...)
	if !fails(cur) {
		return nil, execs
	}
	// 1. truncate (tail becomes zeros)
	lo, hi := 0, len(cur)
	for lo < hi && !over() {
		mid := (lo + hi) / 2
		if fails(cur[:mid]) {
			hi = mid
		} else {
			lo = mid + 1
		}
	}
	if hi < len(cur) && fails(cur[:hi]) {
		cur = cur[:hi]
	}
	for pass := 0; pass < 3 && !over(); pass++ {
		changed := false
		// 2. delete blocks
		for bs := len(cur) / 2; bs >= 1 && !over(); bs /= 2 {
			for i := 0; i+bs <= len(cur) && !over(); {
				cand := append(append([]uint32(nil), cur[:i]...), cur[i+bs:]...)
				if fails(cand) {
					cur = cand
					changed = true
				} else {
					i += bs
				}
			}
		}
		// 3. zero blocks
		for bs := len(cur) / 2; bs >= 1 && !over(); bs /= 2 {
			for i := 0; i+bs <= len(cur) && !over(); i += bs {
				allZero := true
				for _, v := range cur[i : i+bs] {
					if v != 0 {
						allZero = false
					}
				}
				if allZero {
					continue
				}
				cand := append([]uint32(nil), cur...)
				for j := i; j < i+bs; j++ {
					cand[j] = 0
				}
				if fails(cand) {
					cur = cand
					changed = true
				}
			}
		}
		// 4. lower individual entries
		for i := 0; i < len(cur) && !over(); i++ {
			if cur[i] == 0 {
				continue
			}
			lo, hi := uint32(0), cur[i]
			for lo < hi && !over() {
				mid := lo + (hi-lo)/2
				cand := append([]uint32(nil), cur...)
				cand[i] = mid
				if fails(cand) {
					hi = mid
				} else {
					lo = mid + 1
				}
			}
			if hi < cur[i] {
				cand := append([]uint32(nil), cur...)
				cand[i] = hi
				if fails(cand) {
					cur = cand
					changed = true
				}
			}
		}
		// drop trailing zeros
		for len(cur) > 0 && cur[len(cur)-1] == 0 {
			cur = cur[:len(cur)-1]
		}
		if !changed {
			break
		}
	}
	if !fails(cur) {
		// binary searches assume monotonicity; fall back to the original
		return append([]uint32(nil), tape...), execs
	}
	return cur, execs
}

func shrinkMain(fs *flag.FlagSet, args []string) {
	manualGC()
	in := fs.String("in", "", "")
	out := fs.String("out", "", "")
	secs := fs.Int("secs", 60, "")
	noShrink := fs.Bool("noshrink", false, "only record the trace of the given tape")
	fs.Parse(args)
	var rf ReplayFile
	if err := readJSON(*in, &rf); err != nil {
		die2("%v", err)
	}
	p := registry[rf.Property]
	if p == nil {
		die2("unknown property %s", rf.Property)
	}
	rf.OrigTapeLen = len(rf.Tape)
	if !rf.Cold {
		warmUp(p, rf.BaseSeed, rf.Tier)
	}
	if *noShrink {
		fillReplay(p, &rf)
		if err := writeJSON(*out, &rf); err != nil {
			die2("%v", err)
		}
		return
	}
	small, execs := shrinkTape(p, rf.Tier, rf.Tape, rf.Class, rf.Key, time.Duration(*secs)*time.Second)
	if small == nil {
		die2("violation class %s did not reproduce in the shrinker (harness nondeterminism?)", rf.Class)
	}
	rf.Tape = small
	rf.ShrinkExecs = execs
	fillReplay(p, &rf)
	if err := writeJSON(*out, &rf); err != nil {
		die2("%v", err)
	}
}

// fillReplay executes the tape once more with recording and stores the trace.
func fillReplay(p *Prop, rf *ReplayFile) {
	t := rt.NewReplayTape(rf.Tape)
	t.KeepLabels = true
	res := execRun(p, t, rf.Tier, true)
	rf.TraceHash = res.TraceHash
	rf.Trace = res.Run.Events
	rf.All = res.Violations
	rf.Instr = rt.Instr()
	rf.Variant = p.Variant
	rf.Choices = nil
	for i, l := range t.Labels {
		if i >= 400 {
			break
		}
		rf.Choices = append(rf.Choices, fmt.Sprintf("%s=%d", l, t.Rec[i]))
	}
	if v := hasClassKey(res.Violations, rf.Class, rf.Key); v != nil {
		rf.Msg = v.Msg
	}
}

// replay: exit 1 + VIOLATION line when the recorded class reproduces, 0 when
// the run is clean, 2 on trouble.
func replayMain(fs *flag.FlagSet, args []string) {
	manualGC()
	file := fs.String("file", "", "")
	quiet := fs.Bool("quiet", false, "")
	record := fs.String("recordprelude", "", "write the replay file with regenerated prelude tapes here")
	fs.Parse(args)
	var rf ReplayFile
	if err := readJSON(*file, &rf); err != nil {
		die2("%v", err)
	}
	p := registry[rf.Property]
	if p == nil {
		die2("unknown property %s", rf.Property)
	}
	if p.Variant == "I" && !rt.Instrumented() {
		die2("replay of %s needs the instrumented build", p.ID)
	}
	if !rf.Cold {
		warmUp(p, rf.BaseSeed, rf.Tier)
	}
	for i := range rf.Prelude {
		pr := &rf.Prelude[i]
		var pt *rt.Tape
		if pr.Tape != nil {
			pt = rt.NewReplayTape(pr.Tape)
		} else {
			pt = rt.NewTape(runSeed(rf.BaseSeed, p.ID, pr.RunIndex))
			if pr.SweepK >= 0 {
				pt.Override = map[string]int{"config.faulty": 1, "faultpos": pr.SweepK}
			}
		}
		execRun(p, pt, rf.Tier, false)
		if pr.Tape == nil {
			pr.Tape = append([]uint32{}, pt.Rec...)
		}
	}
	if *record != "" {
		// write the file back with the prelude tapes filled in (self-contained)
		if err := writeJSON(*record, &rf); err != nil {
			die2("%v", err)
		}
	}
	t := rt.NewReplayTape(rf.Tape)
	res := execRun(p, t, rf.Tier, !*quiet)
	fmt.Printf("REPLAY property=%s trace=%s violations=%d\n", rf.Property, res.TraceHash, len(res.Violations))
	if !*quiet {
		for _, e := range res.Run.Events {
			fmt.Println("  ", e)
		}
	}
	for _, v := range res.Violations {
		fmt.Printf("  violated: class=%s key=%s\n    %s\n", v.Class, v.Key, v.Msg)
	}
	if v := hasClassKey(res.Violations, rf.Class, rf.Key); v != nil {
		fmt.Printf("VIOLATION property=%s replay=%s\n", rf.Property, *file)
		os.Exit(1)
	}
	fmt.Printf("NOT-REPRODUCED property=%s class=%s (run is clean on this tree)\n", rf.Property, rf.Class)
}
