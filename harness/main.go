// vharness: the simulation driver.  Modes:
//
//	vh drive  -prop C17 -tier quick|thorough      orchestrates worker processes, shrinks, writes evidence
//	vh work   ...                                 one worker process (GOMAXPROCS=1): a range of run indices
//	vh shrink -in viol.json -out replay.json      minimises a failing tape in-process
//	vh replay -file replay.json                   re-executes one recorded run, prints class + trace hash
package main

import (
	"encoding/json"
	"flag"
	"fmt"
	"os"
	"runtime"
	"runtime/debug"
	"runtime/metrics"
	"sort"
	"strings"
	"time"

	"verifsim/rt"
)

// Prop is one property's simulation check.
type Prop struct {
	ID      string
	Level   string // exploration | fault_enumeration
	Variant string // "N" real tree, "I" instrumented scratch copy
	Rule    string
	Design  string
	// Run executes one simulated run on r (r.T is the tape) and records
	// violations with r.Violate.  It must be a pure function of the tape.
	Run func(r *rt.Run, tier string)
	// StepBudget: logical-step cap for a run (0 = default).
	StepBudget              int64
	QuickRuns, ThoroughRuns int
	QuickSecs, ThoroughSecs int
	// Sweep: in the thorough tier, every fault position 0..SweepLen-1 of each
	// sampled workload is executed (override label "faultpos").
	Sweep       bool
	SweepQuick  int // number of workloads swept completely even in quick (0 = none)
	Components  map[string]interface{}
	Assumptions []string
	// Cold-start runs: this many extra runs are each executed as the FIRST and
	// only run of a fresh process (what the code under test initialises on first
	// use - caches, sync.Once, lazily filled tables - is then initialised inside
	// the run, under the run's schedule).  ColdForce pins tape choices for them.
	ColdQuick, ColdThorough int
	ColdForce               map[string]int
}

var registry = map[string]*Prop{}

func register(p *Prop) { registry[p.ID] = p }

func propIDs() []string {
	ids := []string{}
	for id := range registry {
		ids = append(ids, id)
	}
	sort.Strings(ids)
	return ids
}

// RunResult is what one executed run leaves behind.
type RunResult struct {
	Violations []rt.Violation
	TraceHash  string
	ShapeHash  string
	Run        *rt.Run
	// Abandoned: the run could not be executed by the cooperative scheduler (a
	// task blocked on something a parked task holds); it is not judged, and the
	// process must not execute further runs.
	Abandoned string
}

const defaultStepBudget = 2_000_000

// execRun executes property p once on the given tape.
func execRun(p *Prop, tape *rt.Tape, tier string, record bool) (res RunResult) {
	rt.StartWatchdog(5 * time.Second)
	r := rt.NewRun(tape)
	r.Record = record
	r.StepBudget = p.StepBudget
	if r.StepBudget == 0 {
		r.StepBudget = defaultStepBudget
	}
	rt.Activate(r)
	defer rt.Activate(nil)
	func() {
		defer func() {
			if v := recover(); v != nil {
				r.Abort()
				switch pv := v.(type) {
				case rt.RunAbandoned:
					res.Abandoned = "task " + pv.Task
					r.Violations = nil
				case rt.BudgetExceeded:
					r.Violate(p.ID+"/no-termination", "outside-task", "step budget exhausted after %d steps", pv.Steps)
				default:
					st := string(debug.Stack())
					r.Violate(p.ID+"/panic", "outside-task", "panic: %v\n%s", v, trimStack(st))
				}
			}
		}()
		p.Run(r, tier)
	}()
	res.Violations = r.Violations
	res.TraceHash = r.TraceHash()
	res.ShapeHash = r.ShapeHash()
	res.Run = r
	return
}

func trimStack(s string) string {
	lines := strings.Split(s, "\n")
	out := []string{}
	for _, l := range lines {
		if strings.Contains(l, "runtime/") || strings.Contains(l, "runtime.") {
			continue
		}
		out = append(out, l)
		if len(out) > 24 {
			break
		}
	}
	return strings.Join(out, "\n")
}

func runSeed(base uint64, prop string, idx int) uint64 {
	return rt.SplitMix64(base ^ rt.HashString(prop) ^ (uint64(idx) * 0x9e3779b97f4a7c15))
}

func main() {
	if len(os.Args) < 2 {
		fmt.Fprintln(os.Stderr, "usage: vh drive|work|shrink|replay|list ...")
		os.Exit(2)
	}
	mode := os.Args[1]
	fs := flag.NewFlagSet(mode, flag.ExitOnError)
	switch mode {
	case "list":
		for _, id := range propIDs() {
			fmt.Println(id, registry[id].Variant, registry[id].Level)
		}
	case "drive":
		driveMain(fs, os.Args[2:])
	case "work":
		runtime.GOMAXPROCS(1)
		workMain(fs, os.Args[2:])
	case "shrink":
		runtime.GOMAXPROCS(1)
		shrinkMain(fs, os.Args[2:])
	case "replay":
		runtime.GOMAXPROCS(1)
		replayMain(fs, os.Args[2:])
	case "race":
		raceMain(fs, os.Args[2:])
	case "mkfixtures":
		mkfixturesMain(os.Args[2:])
	case "mkkeys":
		mkkeysMain(os.Args[2:])
	case "selftest":
		selftestMain(fs, os.Args[2:])
	default:
		fmt.Fprintln(os.Stderr, "unknown mode", mode)
		os.Exit(2)
	}
}

func writeJSON(path string, v interface{}) error {
	b, err := json.MarshalIndent(v, "", " ")
	if err != nil {
		return err
	}
	tmp := path + ".tmp"
	if err := os.WriteFile(tmp, append(b, '\n'), 0o644); err != nil {
		return err
	}
	return os.Rename(tmp, path)
}

func readJSON(path string, v interface{}) error {
	b, err := os.ReadFile(path)
	if err != nil {
		return err
	}
	return json.Unmarshal(b, v)
}

func die2(format string, args ...interface{}) {
	fmt.Fprintf(os.Stderr, "HARNESS-TROUBLE: "+format+"\n", args...)
	os.Exit(2)
}

// collectGarbage runs a garbage collection and waits until the finalizer
// goroutine has worked through its queue (a sentinel's finalizer is the
// signal; the timeout only guards the harness).  It is called between tasks,
// when no simulated task is running.  The worker processes switch the
// automatic collector off (manualGC) and collect at run boundaries only: a
// finalizer installed by the code under test then never runs in the middle of a
// simulated task, where its calls into the simulated file system would not
// belong to any task.
func collectGarbage() {
	for i := 0; i < 2; i++ {
		done := make(chan struct{})
		s := &struct{ p *int }{new(int)}
		runtime.SetFinalizer(s, func(interface{}) { close(done) })
		s = nil
		runtime.GC()
		select {
		case <-done:
		case <-time.After(300 * time.Millisecond):
		}
	}
	runtime.GC()
}

// manualGC switches the automatic garbage collector off (a generous memory
// limit stays as a safety net).
func manualGC() {
	debug.SetGCPercent(-1)
	debug.SetMemoryLimit(768 << 20)
}

var heapSample = []metrics.Sample{{Name: "/memory/classes/heap/objects:bytes"}}

// heapObjectsBytes reads the live+dead object bytes of the heap (no stop-the-world).
func heapObjectsBytes() uint64 {
	metrics.Read(heapSample)
	if heapSample[0].Value.Kind() == metrics.KindUint64 {
		return heapSample[0].Value.Uint64()
	}
	return 0
}

// gcDue decides at a run boundary whether to collect: after 32 runs at the
// latest, earlier when the heap has grown past 96 MiB.
func gcDue(sinceGC *int) bool {
	*sinceGC++
	if *sinceGC >= 32 || (*sinceGC%4 == 0 && heapObjectsBytes() > 96<<20) {
		*sinceGC = 0
		return true
	}
	return false
}

// warmUp executes a fixed set of runs of the property and throws the results
// away.  Code under test may (correctly) build things on first use - per-type
// decode plans, lazily compiled tables - and the instrumented build sees that
// as extra steps and yield points: a run would then leave a different trace as
// the first user of a type than as a later one.  Every worker, shrinker and
// replay process therefore starts warm, except for the cold-start runs, whose
// point is to be cold.
func warmUp(p *Prop, seed uint64, tier string) {
	const warmBase = 1 << 27
	for j := 0; j < 96; j++ {
		res := execRun(p, rt.NewTape(runSeed(seed, p.ID, warmBase+j)), tier, false)
		if res.Abandoned != "" {
			return
		}
	}
	collectGarbage()
}
