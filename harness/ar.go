package main

// ar(5) archive model and renderer, written from the format description
// (global magic, 60-byte headers, data padded to even length).

import (
	"fmt"
	"strconv"
	"strings"

	"verifsim/rt"
)

type arMember struct {
	Name                                     string // expected name (padding and one trailing '/' removed)
	RawName                                  string // as stored, <= 16 bytes, before padding
	Timestamp                                int64
	UID, GID                                 int64
	Mode                                     string
	Data                                     []byte
	BlankTime, BlankUID, BlankGID, BlankMode bool
	NoPad                                    bool // omit the pad byte (only sensible for the last member)
	ZeroPad                                  bool // numeric columns zero-padded to their full width

	HdrOff, DataOff int // filled by renderAr
}

const arMagic = "!<arch>\n"

func padTo(s string, n int) string {
	if len(s) >= n {
		return s[:n]
	}
	return s + strings.Repeat(" ", n-len(s))
}

func arHeader(m *arMember, size string) string {
	ts, uid, gid, mode := fmt.Sprint(m.Timestamp), fmt.Sprint(m.UID), fmt.Sprint(m.GID), m.Mode
	if m.ZeroPad {
		ts, uid, gid = fmt.Sprintf("%012d", m.Timestamp), fmt.Sprintf("%06d", m.UID), fmt.Sprintf("%06d", m.GID)
		if n, err := strconv.Atoi(size); err == nil {
			size = fmt.Sprintf("%010d", n)
		}
	}
	if m.BlankTime {
		ts = ""
	}
	if m.BlankUID {
		uid = ""
	}
	if m.BlankGID {
		gid = ""
	}
	if m.BlankMode {
		mode = ""
	}
	return padTo(m.RawName, 16) + padTo(ts, 12) + padTo(uid, 6) + padTo(gid, 6) + padTo(mode, 8) + padTo(size, 10) + "`\n"
}

func renderAr(ms []*arMember) []byte {
	var sb strings.Builder
	sb.WriteString(arMagic)
	for _, m := range ms {
		m.HdrOff = sb.Len()
		sb.WriteString(arHeader(m, fmt.Sprint(len(m.Data))))
		m.DataOff = sb.Len()
		sb.Write(m.Data)
		if len(m.Data)%2 == 1 && !m.NoPad {
			sb.WriteByte('\n')
		}
	}
	return []byte(sb.String())
}

func (m *arMember) expTimestamp() int64 {
	if m.BlankTime {
		return 0
	}
	return m.Timestamp
}
func (m *arMember) expUID() int64 {
	if m.BlankUID {
		return 0
	}
	return m.UID
}
func (m *arMember) expGID() int64 {
	if m.BlankGID {
		return 0
	}
	return m.GID
}
func (m *arMember) expMode() string {
	if m.BlankMode {
		return ""
	}
	return m.Mode
}

var arNameStock = []string{"debian-binary", "control.tar.gz", "data.tar.xz", "_gpgorigin", "a", "x.o", "hello.txt", "0123456789abcdef", "dir/file", "usr/share/doc/ab", "a/b/c"}
var arModes = []string{"100644", "100755", "644", "40755", "0", "0644", "000755", "00100644", "000"}

func genArMember(t *rt.Tape, r *rt.Run, idx int, last bool) *arMember {
	m := &arMember{}
	name := ""
	if t.Bool(1, 2, "ar.stock") {
		name = arNameStock[t.Draw(len(arNameStock), "ar.name")]
	} else {
		name = genFrom(t, lowerAlnum+"._-", 1, 1, "ar.name0") + genFrom(t, lowerAlnum+"._-/", 0, 15, "ar.namec")
		for strings.HasSuffix(name, "/") {
			name = name[:len(name)-1] + "x" // the trailing '/' (terminator) is decided separately
		}
	}
	if strings.Contains(name, "/") {
		r.Probe("name-with-interior-slash")
	}
	m.Name, m.RawName = name, name
	if len(name) == 16 {
		r.Probe("16-byte-name")
	}
	if len(name) < 16 && t.Bool(1, 3, "ar.slash") {
		m.RawName = name + "/"
		r.Probe("name-with-trailing-slash")
	}
	m.Timestamp = int64(t.Draw(2_000_000_000, "ar.ts"))
	if t.Bool(1, 8, "ar.bigts") {
		m.Timestamp = 999_999_999_999
	}
	m.UID, m.GID = int64(t.Draw(100000, "ar.uid")), int64(t.Draw(100000, "ar.gid"))
	m.Mode = arModes[t.Draw(len(arModes), "ar.mode")]
	if t.Bool(1, 5, "ar.zeropad") {
		m.ZeroPad = true
		r.Probe("zero-padded-numeric-columns")
	}
	m.BlankTime, m.BlankUID, m.BlankGID, m.BlankMode = t.Bool(1, 6, "ar.bt"), t.Bool(1, 6, "ar.bu"), t.Bool(1, 6, "ar.bg"), t.Bool(1, 8, "ar.bm")
	if m.BlankTime || m.BlankUID || m.BlankGID {
		r.Probe("blank-numeric-column")
	}
	var n int
	switch t.Weighted([]int{2, 2, 5, 2, 1}, "ar.sizeclass") {
	case 0:
		n = 0
		r.Probe("zero-length-member")
	case 1:
		n = 1
	case 2:
		n = t.Range(2, 200, "ar.size")
	case 3:
		n = t.Range(201, 5000, "ar.size")
	case 4:
		n = t.Range(5001, 66000, "ar.size")
	}
	s := t.Sub("ar.data")
	m.Data = s.Bytes(n)
	if n >= 60 && t.Bool(1, 4, "ar.fakehdr") {
		// binary data that looks like a member header
		copy(m.Data, []byte(arHeader(&arMember{RawName: "fake", Mode: "644"}, "10")))
		r.Probe("data-looks-like-header")
	}
	if n%2 == 1 {
		if last {
			r.Probe("odd-last-member")
			if t.Bool(1, 3, "ar.nopad") {
				m.NoPad = true
				r.Probe("odd-last-member-without-pad")
			}
		} else {
			r.Probe("odd-member-followed-by-another")
		}
	}
	return m
}

func genArMembers(t *rt.Tape, r *rt.Run, max int) []*arMember {
	n := t.Range(0, max, "ar.members")
	ms := make([]*arMember, 0, n)
	for i := 0; i < n; i++ {
		ms = append(ms, genArMember(t, r, i, i == n-1))
	}
	return ms
}
