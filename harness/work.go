package main

import (
	"flag"
	"fmt"
	"os"
	"sort"
	"strconv"
	"strings"
	"time"

	"verifsim/rt"
)

// ---------------------------------------------------------------------------
// known findings

type Finding struct {
	Status   string `json:"status"` // "known" | "fixed"
	Property string `json:"property"`
	Class    string `json:"class,omitempty"`
	Key      string `json:"key,omitempty"` // exact, or prefix when it ends in '*'
	Commit   string `json:"commit,omitempty"`
	What     string `json:"what"`
	Line     string `json:"line"`
}

type FindingsFile struct {
	Comment  string    `json:"comment,omitempty"`
	Findings []Finding `json:"findings"`
}

func loadFindings(path string) []Finding {
	var ff FindingsFile
	if path == "" {
		return nil
	}
	if err := readJSON(path, &ff); err != nil {
		if os.IsNotExist(err) {
			return nil
		}
		die2("cannot read known findings %s: %v", path, err)
	}
	return ff.Findings
}

// matchKnown returns the index of the known (not fixed) finding matching v, or -1.
func matchKnown(fs []Finding, prop string, v rt.Violation) int {
	for i, f := range fs {
		if f.Status != "known" || f.Property != prop || f.Class != v.Class {
			continue
		}
		if f.Key == v.Key || f.Key == "*" {
			return i
		}
		if strings.HasSuffix(f.Key, "*") && strings.HasPrefix(v.Key, strings.TrimSuffix(f.Key, "*")) {
			return i
		}
	}
	return -1
}

// ---------------------------------------------------------------------------

type ViolRec struct {
	Idx        int            `json:"idx"`
	K          int            `json:"k"` // sweep position, -1 = none
	Tape       []uint32       `json:"tape"`
	Violations []rt.Violation `json:"violations"`
	TraceHash  string         `json:"trace_hash"`
	// Before: the runs (index, sweep position) this worker process executed
	// before this one, oldest first, at most 256 - the material for a history
	// replay when the violation does not reproduce from its own tape alone.
	Before [][2]int `json:"before,omitempty"`
}

type Sample struct {
	RunIndex int            `json:"run_index"`
	SweepK   int            `json:"sweep_k"`
	TapeLen  int            `json:"tape_len"`
	Steps    int64          `json:"logical_steps"`
	Faults   map[string]int `json:"faults_fired,omitempty"`
	Probes   map[string]int `json:"probes,omitempty"`
	Events   []string       `json:"first_events"`
	Shape    string         `json:"shape_hash"`
}

type KnownHit struct {
	Count   int     `json:"count"`
	Example ViolRec `json:"example"`
}

type WorkOut struct {
	Prop           string            `json:"prop"`
	Runs           int               `json:"runs"`
	BaseRuns       int               `json:"base_runs"`
	SweepRuns      int               `json:"sweep_runs"`
	SweptWorkloads int               `json:"swept_workloads"`
	NonTrivial     int               `json:"nontrivial"`
	Shapes         []string          `json:"shapes"`
	Faults         map[string]int    `json:"faults"`
	Probes         map[string]int    `json:"probes"`
	Stats          map[string]int64  `json:"stats"`
	Steps          int64             `json:"steps"`
	Samples        []Sample          `json:"samples"`
	Hashes         map[string]string `json:"hashes"`
	Unknown        []ViolRec         `json:"unknown"`
	Known          map[int]*KnownHit `json:"known"`
	MaxIdx         int               `json:"max_idx"`
	WallS          float64           `json:"wall_s"`
	Instr          []rt.InstrInfo    `json:"instr,omitempty"`
}

func workMain(fs *flag.FlagSet, args []string) {
	propID := fs.String("prop", "", "")
	tier := fs.String("tier", "quick", "")
	seed := fs.Uint64("seed", 1, "")
	w := fs.Int("w", 0, "")
	W := fs.Int("W", 1, "")
	from := fs.Int("from", 0, "")
	to := fs.Int("to", 100, "")
	deadline := fs.Int64("deadline", 0, "unix seconds; 0 = none")
	out := fs.String("out", "", "")
	known := fs.String("known", "", "")
	hashKeep := fs.Int("hashkeep", 0, "keep trace hashes for run indices below this")
	sweep := fs.Int("sweep", 0, "number of workloads (lowest indices) to sweep completely; -1 = all")
	force := fs.String("force", "", "label=value,... : tape choices pinned for every run of this invocation")
	cold := fs.Bool("cold", false, "do not warm up: the first run of this process is meant to be the first use of everything")
	fs.Parse(args)
	forced := map[string]int{}
	for _, kv := range strings.Split(*force, ",") {
		if i := strings.Index(kv, "="); i > 0 {
			v, _ := strconv.Atoi(kv[i+1:])
			forced[kv[:i]] = v
		}
	}
	p := registry[*propID]
	if p == nil {
		die2("unknown property %q", *propID)
	}
	if p.Variant == "I" && !rt.Instrumented() {
		die2("property %s needs the instrumented build", p.ID)
	}
	findings := loadFindings(*known)
	start := time.Now()
	o := &WorkOut{Prop: p.ID, Faults: map[string]int{}, Probes: map[string]int{}, Stats: map[string]int64{},
		Hashes: map[string]string{}, Known: map[int]*KnownHit{}, Instr: rt.Instr()}
	shapes := map[string]bool{}
	unknownPerClass := map[string]int{}

	var history [][2]int
	account := func(idx, k int, res RunResult, tape *rt.Tape, record bool) {
		r := res.Run
		o.Runs++
		defer func() {
			history = append(history, [2]int{idx, k})
			if len(history) > 256 {
				history = history[len(history)-256:]
			}
		}()
		if r.NonTrivial {
			o.NonTrivial++
			if len(shapes) < 3_000_000 {
				shapes[res.ShapeHash] = true
			}
		}
		for kk, v := range r.Faults {
			o.Faults[kk] += v
		}
		for kk, v := range r.Probes {
			o.Probes[kk] += v
		}
		for kk, v := range r.Stats {
			o.Stats[kk] += v
		}
		o.Steps += r.Steps
		if idx < *hashKeep {
			o.Hashes[fmt.Sprintf("%d.%d", idx, k)] = res.TraceHash
		}
		if record {
			ev := r.Events
			if len(ev) > 60 {
				ev = ev[:60]
			}
			o.Samples = append(o.Samples, Sample{RunIndex: idx, SweepK: k, TapeLen: len(tape.Rec), Steps: r.Steps,
				Faults: r.Faults, Probes: r.Probes, Events: ev, Shape: res.ShapeHash})
		}
		for _, v := range res.Violations {
			rec := ViolRec{Idx: idx, K: k, Tape: append([]uint32(nil), tape.Rec...), Violations: []rt.Violation{v}, TraceHash: res.TraceHash, Before: append([][2]int(nil), history...)}
			if ki := matchKnown(findings, p.ID, v); ki >= 0 {
				h := o.Known[ki]
				if h == nil {
					h = &KnownHit{Example: rec}
					o.Known[ki] = h
				}
				h.Count++
				continue
			}
			if unknownPerClass[v.Class+"|"+v.Key] < 4 {
				unknownPerClass[v.Class+"|"+v.Key]++
				o.Unknown = append(o.Unknown, rec)
			}
		}
	}

	manualGC()
	if !*cold {
		warmUp(p, *seed, *tier)
	}
	sinceGC := 0
	abandoned := false
	for idx := *from + *w; idx < *to && !abandoned; idx += *W {
		if *deadline > 0 && time.Now().Unix() >= *deadline {
			break
		}
		if gcDue(&sinceGC) {
			collectGarbage()
		}
		if len(o.Unknown) >= 60 {
			break
		}
		s := runSeed(*seed, p.ID, idx)
		tape := rt.NewTape(s)
		if len(forced) > 0 {
			tape.Override = forced
		}
		record := len(o.Samples) < 2 && *w == 0
		res := execRun(p, tape, *tier, record)
		if res.Abandoned != "" {
			o.Stats["runs abandoned (a task blocked on a lock or channel held by a parked task; not judged; the worker stopped there)"]++
			break
		}
		account(idx, -1, res, tape, record)
		o.BaseRuns++
		if idx > o.MaxIdx {
			o.MaxIdx = idx
		}
		if p.Sweep && res.Run.SweepLen > 0 && (*sweep < 0 || idx < *sweep) {
			L := res.Run.SweepLen
			o.SweptWorkloads++
			for k := 0; k < L; k++ {
				if *deadline > 0 && k%64 == 0 && time.Now().Unix() >= *deadline+30 {
					break
				}
				if gcDue(&sinceGC) {
					collectGarbage()
				}
				t2 := rt.NewTape(s)
				t2.Override = map[string]int{"config.faulty": 1, "faultpos": k}
				rec2 := len(o.Samples) < 3 && *w == 0 && k == L/2
				res2 := execRun(p, t2, *tier, rec2)
				if res2.Abandoned != "" {
					o.Stats["runs abandoned (a task blocked on a lock or channel held by a parked task; not judged; the worker stopped there)"]++
					abandoned = true
					break
				}
				account(idx, k, res2, t2, rec2)
				o.SweepRuns++
			}
		}
	}
	for s := range shapes {
		o.Shapes = append(o.Shapes, s)
	}
	sort.Strings(o.Shapes)
	o.WallS = time.Since(start).Seconds()
	if *out == "" {
		die2("no -out")
	}
	if err := writeJSON(*out, o); err != nil {
		die2("write %s: %v", *out, err)
	}
}
