package main

// Model-first generators for architectures and dependency relations: the
// structure is drawn, rendered as Debian text, and the library's parse is
// compared with the structure (an independent reference, no shared code).

import (
	"fmt"
	"strings"

	"pault.ag/go/debian/dependency"
	"verifsim/rt"
)

type mArch struct {
	Text         string
	ABI, OS, CPU string
	CheckABI     bool
}

var archStock = []mArch{
	{"amd64", "gnu", "linux", "amd64", true},
	{"i386", "gnu", "linux", "i386", true},
	{"arm64", "gnu", "linux", "arm64", true},
	{"all", "all", "all", "all", true},
	{"any", "any", "any", "any", true},
	{"linux-any", "", "linux", "any", false},
	{"kfreebsd-amd64", "", "kfreebsd", "amd64", false},
	{"any-i386", "", "any", "i386", false},
	{"musl-linux-armhf", "musl", "linux", "armhf", true},
}

func genArch(t *rt.Tape, label string, concrete bool) mArch {
	if concrete {
		return archStock[t.Draw(3, label)]
	}
	return archStock[t.Draw(len(archStock), label)]
}

func archEq(got dependency.Arch, want mArch) bool {
	if got.OS != want.OS || got.CPU != want.CPU {
		return false
	}
	return !want.CheckABI || got.ABI == want.ABI
}

type mStage struct {
	Not  bool
	Name string
}

type mPoss struct {
	Name     string
	Qual     *mArch
	Op, Ver  string
	Archs    []mArch
	ArchNot  bool
	Stages   [][]mStage
	Substvar bool
}

type mRel []mPoss
type mDep []mRel

var depNames = []string{"libc6", "debhelper", "python3", "libfoo-dev", "g++", "perl-base", "x11-common", "libstdc++6", "a2ps", "dh-python"}
var depOps = []string{">=", "<=", "<<", ">>", "="}
var stageNames = []string{"nocheck", "stage1", "cross", "nodoc"}

type depOpts struct {
	Names         []string // pick names from here (C19) instead of the stock
	Substvars     bool
	Stages        bool
	MaxRels       int
	ConcreteArchs bool
}

func genPoss(t *rt.Tape, o depOpts, label string) mPoss {
	p := mPoss{}
	if o.Substvars && t.Bool(1, 10, label+".subst") {
		p.Substvar = true
		p.Name = []string{"misc:Depends", "shlibs:Depends", "python3:Depends"}[t.Draw(3, label+".sv")]
		return p
	}
	if len(o.Names) > 0 {
		p.Name = o.Names[t.Draw(len(o.Names), label+".name")]
	} else {
		p.Name = depNames[t.Draw(len(depNames), label+".name")]
	}
	if t.Bool(1, 8, label+".qual") {
		a := []mArch{archStock[4], archStock[0], {"native", "gnu", "linux", "native", true}}[t.Draw(3, label+".qualv")]
		p.Qual = &a
	}
	if t.Bool(1, 3, label+".ver") {
		p.Op = depOps[t.Draw(len(depOps), label+".op")]
		p.Ver = genVersion(t, label+".v").Text
	}
	if t.Bool(1, 4, label+".archs") {
		p.ArchNot = t.Bool(1, 3, label+".not")
		used := map[string]bool{}
		for i, n := 0, t.Range(1, 3, label+".narch"); i < n; i++ {
			a := genArch(t, label+".arch", o.ConcreteArchs)
			if !used[a.Text] {
				used[a.Text] = true
				p.Archs = append(p.Archs, a)
			}
		}
	}
	if o.Stages && t.Bool(1, 8, label+".stages") {
		for i, n := 0, t.Range(1, 2, label+".nsets"); i < n; i++ {
			set := []mStage{}
			for j, m := 0, t.Range(1, 2, label+".nst"); j < m; j++ {
				set = append(set, mStage{Not: t.Bool(1, 2, label+".stnot"), Name: stageNames[t.Draw(len(stageNames), label+".stname")]})
			}
			p.Stages = append(p.Stages, set)
		}
	}
	return p
}

func genDep(t *rt.Tape, o depOpts, label string) mDep {
	if o.MaxRels == 0 {
		o.MaxRels = 4
	}
	d := mDep{}
	for i, n := 0, t.Range(1, o.MaxRels, label+".nrel"); i < n; i++ {
		rel := mRel{}
		for j, m := 0, t.Weighted([]int{0, 6, 2, 1}, label+".nposs"); j < m; j++ {
			rel = append(rel, genPoss(t, o, label))
		}
		d = append(d, rel)
	}
	return d
}

func (p mPoss) String() string {
	if p.Substvar {
		return "${" + p.Name + "}"
	}
	s := p.Name
	if p.Qual != nil {
		s += ":" + p.Qual.Text
	}
	if p.Op != "" {
		s += " (" + p.Op + " " + p.Ver + ")"
	}
	if len(p.Archs) > 0 {
		as := []string{}
		for _, a := range p.Archs {
			if p.ArchNot {
				as = append(as, "!"+a.Text)
			} else {
				as = append(as, a.Text)
			}
		}
		s += " [" + strings.Join(as, " ") + "]"
	}
	for _, set := range p.Stages {
		ss := []string{}
		for _, st := range set {
			if st.Not {
				ss = append(ss, "!"+st.Name)
			} else {
				ss = append(ss, st.Name)
			}
		}
		s += " <" + strings.Join(ss, " ") + ">"
	}
	return s
}

// render writes the dependency as one line, or folded over several lines the
// way dpkg-dev does (", \n " between relations).
func (d mDep) render(folded bool) string {
	rels := []string{}
	for _, r := range d {
		ps := []string{}
		for _, p := range r {
			ps = append(ps, p.String())
		}
		rels = append(rels, strings.Join(ps, " | "))
	}
	if folded {
		return strings.Join(rels, ",\n ")
	}
	return strings.Join(rels, ", ")
}

// depDiff compares the library's parse with the model ("" = equal).
func depDiff(got dependency.Dependency, want mDep) string {
	if len(got.Relations) != len(want) {
		return fmt.Sprintf("%d relations, want %d", len(got.Relations), len(want))
	}
	for i, r := range want {
		g := got.Relations[i]
		if len(g.Possibilities) != len(r) {
			return fmt.Sprintf("relation %d: %d possibilities, want %d", i, len(g.Possibilities), len(r))
		}
		for j, p := range r {
			gp := g.Possibilities[j]
			w := fmt.Sprintf("relation %d possibility %d (%s): ", i, j, p.String())
			if gp.Name != p.Name || gp.Substvar != p.Substvar {
				return w + fmt.Sprintf("name %q substvar=%v", gp.Name, gp.Substvar)
			}
			if p.Substvar {
				continue
			}
			if (gp.Arch != nil) != (p.Qual != nil) || (p.Qual != nil && !archEq(*gp.Arch, *p.Qual)) {
				return w + fmt.Sprintf("arch qualifier %+v", gp.Arch)
			}
			if (gp.Version != nil) != (p.Op != "") || (p.Op != "" && (gp.Version.Operator != p.Op || gp.Version.Number != p.Ver)) {
				return w + fmt.Sprintf("version %+v", gp.Version)
			}
			na := 0
			if gp.Architectures != nil {
				na = len(gp.Architectures.Architectures)
			}
			if na != len(p.Archs) {
				return w + fmt.Sprintf("%d architectures, want %d", na, len(p.Archs))
			}
			if na > 0 {
				if gp.Architectures.Not != p.ArchNot {
					return w + "negation of the architecture list"
				}
				for k, a := range p.Archs {
					if !archEq(gp.Architectures.Architectures[k], a) {
						return w + fmt.Sprintf("architecture %d is %+v", k, gp.Architectures.Architectures[k])
					}
				}
			}
			if len(gp.StageSets) != len(p.Stages) {
				return w + fmt.Sprintf("%d stage sets, want %d", len(gp.StageSets), len(p.Stages))
			}
			for k, set := range p.Stages {
				if len(gp.StageSets[k].Stages) != len(set) {
					return w + "stage set length"
				}
				for l, st := range set {
					if gs := gp.StageSets[k].Stages[l]; gs.Not != st.Not || gs.Name != st.Name {
						return w + fmt.Sprintf("stage %+v", gs)
					}
				}
			}
		}
	}
	return ""
}
