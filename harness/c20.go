package main

// C20  Upload Copy/Move/Remove act on the control file last and stay in-directory.
//
// Runs entirely on the simulated file system (the library's "os" import is
// re-pointed to verifsim/simos in the instrumented scratch copy).  Actors:
// U (the uploader: parse the control file, then Copy/Move/Remove), W (an
// incoming-queue watcher that processes an upload as soon as it sees the
// control file), optionally U2 (an unrelated upload into the same directory).
// Every file-system call of U is a yield point, a fault point and a crash point.

import (
	"bytes"
	"crypto/md5"
	"fmt"
	"path"
	"strings"
	"syscall"

	"pault.ag/go/debian/control"
	"verifsim/rt"
	"verifsim/simos"
)

type upFile struct {
	Listed  string
	Base    string
	SrcPath string
	Content []byte
	Escapes bool
}

type upload struct {
	Kind    string // dsc | changes
	CtlName string
	Ctl     []byte
	Files   []upFile
	// ChecksumOnly: entries that appear in the Checksums-* fields but not in
	// Files (the lists of a control file need not agree)
	ChecksumOnly []upFile
	SrcDir       string
	DstDir       string
}

const c20Src, c20Dst = "/queue/incoming/src", "/queue/dest"
const c20Third0 = "/queue/third"

// c20Twin: the directory of a second upload that lists the SAME file names with
// other contents (a re-upload, another architecture's build of the same version)
const c20Twin = "/queue/incoming/twin"

func renderUploadCtl(kind, source string, v mVersion, files []upFile, extra ...upFile) []byte {
	var sb strings.Builder
	if kind == "dsc" {
		fmt.Fprintf(&sb, "Format: 3.0 (quilt)\nSource: %s\nBinary: %s\nArchitecture: any\nVersion: %s\nMaintainer: A B <a@b>\n", source, source, v.Text)
		for _, field := range []string{"Checksums-Sha1", "Checksums-Sha256"} {
			if field == "Checksums-Sha1" && len(extra) == 0 {
				continue
			}
			if len(files)+len(extra) > 0 {
				sb.WriteString(field + ":\n")
			}
			w := map[string]int{"Checksums-Sha1": 40, "Checksums-Sha256": 64}[field]
			for _, f := range append(append([]upFile{}, files...), extra...) {
				fmt.Fprintf(&sb, " %0*x %d %s\n", w, len(f.Content), len(f.Content), f.Listed)
			}
		}
		if len(files) > 0 {
			sb.WriteString("Files:\n")
		}
		for _, f := range files {
			fmt.Fprintf(&sb, " %x %d %s\n", md5.Sum(f.Content), len(f.Content), f.Listed)
		}
	} else {
		fmt.Fprintf(&sb, "Format: 1.8\nDate: Mon, 02 Jan 2006 15:04:05 +0000\nSource: %s\nBinary: %s\nArchitecture: source\nVersion: %s\nDistribution: unstable\nUrgency: low\nMaintainer: A B <a@b>\nChanged-By: A B <a@b>\nDescription:\n %s - x\nChanges:\n %s (%s) unstable; urgency=low\n .\n   * x\n", source, source, v.Text, source, source, v.Text)
		if len(files) > 0 {
			sb.WriteString("Files:\n")
		}
		for _, f := range files {
			fmt.Fprintf(&sb, " %x %d devel optional %s\n", md5.Sum(f.Content), len(f.Content), f.Listed)
		}
		if len(extra) > 0 {
			for _, field := range []string{"Checksums-Sha1", "Checksums-Sha256"} {
				sb.WriteString(field + ":\n")
				w := map[string]int{"Checksums-Sha1": 40, "Checksums-Sha256": 64}[field]
				for _, f := range append(append([]upFile{}, files...), extra...) {
					fmt.Fprintf(&sb, " %0*x %d %s\n", w, len(f.Content), len(f.Content), f.Listed)
				}
			}
		}
	}
	return []byte(sb.String())
}

func genUpload(t *rt.Tape, r *rt.Run, srcDir, tag string, allowOdd bool) *upload {
	u := &upload{SrcDir: srcDir, DstDir: c20Dst}
	u.Kind = []string{"dsc", "changes"}[t.Draw(2, "up.kind")]
	source := tag + genFrom(t, "abcdefghijklmnopqrstuvwxyz", 1, 5, "up.src")
	v := genVersion(t, "up.ver")
	stem := source + "_" + strings.ReplaceAll(v.Text, ":", "%3a")
	u.CtlName = stem + "." + u.Kind
	n := t.Weighted([]int{1, 3, 3, 2, 1, 1, 1}, "up.nfiles")
	manyFiles := t.Bool(1, 60, "up.manyfiles")
	if manyFiles {
		n = 30 + t.Draw(120, "up.manyfiles.n")
		r.Probe("upload-with-dozens-of-files")
	}
	exts := []string{".orig.tar.gz", ".debian.tar.xz", ".tar.bz2", "_amd64.deb", ".orig-a.tar.gz", "_all.deb", ".diff.gz"}
	for i := 0; i < n; i++ {
		base := stem + fmt.Sprintf("_part%03d.tar.gz", i)
		if i < len(exts) {
			base = stem + exts[i]
		}
		if u.Kind == "changes" && i == 0 && t.Bool(1, 2, "up.lists-dsc") {
			base = stem + ".dsc"
		}
		listed := base
		if allowOdd {
			switch t.Weighted([]int{14, 1, 1, 1, 1, 1, 1}, "up.namekind") {
			case 6:
				// the name "/" (or "//"): its last component is "/" again
				listed = []string{"/", "//"}[t.Draw(2, "up.slashname")]
				r.Probe("listed-name-is-a-bare-slash")
			case 1:
				listed = "sub/" + base
				r.Probe("name-with-subdirectory")
			case 2:
				listed = "./" + base
			case 3:
				listed = "../" + base
				r.Probe("traversal-name")
			case 4:
				listed = "../../" + base
				r.Probe("traversal-name")
			case 5:
				listed = "/abs/" + base
				r.Probe("absolute-name")
			}
		}
		var size int
		switch t.Weighted([]int{1, 6, 2, 1}, "up.sizeclass") {
		case 0:
			size = 0
		case 1:
			size = t.Range(1, 300, "up.size")
		case 2:
			size = t.Range(301, 40000, "up.size")
		case 3:
			size = t.Range(40001, 200000, "up.size")
			r.Probe("file-needs-several-read-write-calls")
		}
		f := upFile{Listed: listed, Base: base, SrcPath: path.Join(srcDir, listed), Content: t.Sub("up.content").Bytes(size)}
		f.Escapes = path.Dir(f.SrcPath) != srcDir
		u.Files = append(u.Files, f)
	}
	if allowOdd && n > 0 && t.Bool(1, 25, "up.lists-itself") {
		// the control file lists itself
		u.Files[t.Draw(n, "up.selfidx")].Listed = u.CtlName
		i := 0
		for i = range u.Files {
			if u.Files[i].Listed == u.CtlName {
				break
			}
		}
		u.Files[i].Base = u.CtlName
		u.Files[i].SrcPath = path.Join(srcDir, u.CtlName)
		u.Files[i].Escapes = false
		r.Probe("control-file-lists-itself")
	}
	if n > 0 && t.Bool(1, 20, "up.tmpname") {
		// a listed file called like another listed file (or like the control file)
		// plus ".tmp", and listed BEFORE it: names are the uploader's business
		k := t.Draw(n+1, "up.tmpname.of")
		other := u.CtlName
		if k < n {
			other = u.Files[k].Base
		}
		f := upFile{Listed: other + ".tmp", Base: other + ".tmp", SrcPath: path.Join(srcDir, other+".tmp"), Content: []byte("a file of its own that happens to be called " + other + ".tmp")}
		at := 0
		if k < n {
			at = k
		}
		u.Files = append(u.Files[:at], append([]upFile{f}, u.Files[at:]...)...)
		r.Probe("listed-name-is-another-listed-name-plus-tmp")
	}
	if t.Bool(1, 6, "up.checksum-only") {
		// an entry that only the checksum fields know: nothing says such a name is
		// a file of the upload, and wherever it points outside the two directories
		// it must be left alone
		listed := []string{"../../cs-only-secret.key", "/queue/cs-only-abs.key", stem + ".buildinfo", "../cs-only-up.key"}[t.Draw(4, "up.csonly.name")]
		f := upFile{Listed: listed, Base: path.Base(listed), SrcPath: path.Join(srcDir, listed), Content: []byte("known to the checksum fields only: " + listed)}
		if path.IsAbs(listed) {
			f.SrcPath = listed
		}
		f.Escapes = path.Dir(f.SrcPath) != srcDir
		u.ChecksumOnly = []upFile{f}
		r.Probe("name-listed-only-in-checksum-fields")
	}
	u.Ctl = renderUploadCtl(u.Kind, source, v, u.Files, u.ChecksumOnly...)
	for i := range u.Files {
		if u.Files[i].Listed == u.CtlName {
			u.Files[i].Content = u.Ctl
		}
	}
	return u
}

type c20Work struct {
	U, U2     *upload
	Op        string // Copy | Move | Remove
	DstState  string // dir | missing | file
	TwoMounts bool
	Watcher   bool
	Stale     bool
	SameDir   bool   // destination directory == the control file's own directory
	Hardlinks bool   // the destination already holds hard links to the source files (cp -al snapshot)
	Second    string // "", "Remove" or "Move": a second operation on the same handle after the first succeeded
}

type c20Result struct {
	calls    int
	history  []simos.Op
	err      error
	returned bool
	crashed  bool
	handleFn string
}

var c20FaultKinds = []simos.Fault{
	{Kind: "err", Errno: syscall.EIO},
	{Kind: "err", Errno: syscall.ENOSPC},
	{Kind: "err", Errno: syscall.EACCES},
	{Kind: "err", Errno: syscall.ENOENT},
	{Kind: "err", Errno: syscall.EXDEV},
	{Kind: "short", Errno: syscall.ENOSPC},
	{Kind: "crash"},
	{Kind: "crash-after"},
	// error classes a caller might single out (os.IsExist is true for EEXIST and
	// ENOTEMPTY; EINTR calls itself temporary)
	{Kind: "err", Errno: syscall.EEXIST},
	{Kind: "err", Errno: syscall.ENOTEMPTY},
	{Kind: "err", Errno: syscall.EINTR},
}
var c20FaultNames = []string{"EIO", "ENOSPC", "EACCES", "ENOENT", "EXDEV", "short", "crash", "crash-after", "EEXIST", "ENOTEMPTY", "EINTR"}

func under(p, dir string) bool { return p == dir || strings.HasPrefix(p, dir+"/") }

// c20Exec builds a fresh file system from the workload, runs the actors and
// checks every invariant.  planIdx<=0 means fault-free.
func c20Exec(r *rt.Run, w *c20Work, planIdx int, fault simos.Fault, tag string) c20Result {
	fs := simos.New(r)
	dst := c20Dst
	if w.SameDir {
		dst = w.U.SrcDir // the upload is copied / moved into the directory it is already in
	}
	if w.TwoMounts {
		fs.Mount(dst, 2)
	}
	u := w.U
	fs.MkdirAllQuiet(u.SrcDir)
	fs.MkdirAllQuiet("/queue/incoming/src/sub")
	fs.PutQuiet(path.Join(u.SrcDir, u.CtlName), u.Ctl)
	for _, f := range u.Files {
		if f.Listed != u.CtlName && f.SrcPath != u.SrcDir {
			// (a listed name like "/" resolves to the source directory itself: there is no such file to put)
			fs.PutQuiet(f.SrcPath, f.Content)
		}
	}
	switch w.DstState {
	case "dir":
		fs.MkdirAllQuiet(dst)
		if w.Stale {
			for i, f := range u.Files {
				if i%2 == 0 && f.Base != u.CtlName {
					fs.PutQuiet(path.Join(dst, f.Base), []byte("stale content of an earlier upload"))
				}
			}
		}
	case "file":
		fs.PutQuiet(dst, []byte("i am a regular file"))
	}
	if w.Hardlinks {
		// the same inodes under other names: emptying "the destination file"
		// would empty the source
		for _, f := range u.Files {
			fs.LinkQuiet(f.SrcPath, path.Join(dst, f.Base))
		}
	}
	fs.PutQuiet("/queue/bystander.txt", []byte("bystander"))
	for _, f := range u.ChecksumOnly {
		fs.PutQuiet(f.SrcPath, f.Content)
	}
	if w.Second == "Move" {
		fs.MkdirAllQuiet(c20Third0)
	}
	if w.Second == "CopyTwin" {
		fs.PutQuiet(path.Join(c20Twin, u.CtlName), u.Ctl)
		for _, f := range u.Files {
			if f.Listed != u.CtlName {
				fs.PutQuiet(path.Join(c20Twin, f.Base), []byte("twin content of "+f.Base))
			}
		}
	}
	if w.U2 != nil {
		fs.PutQuiet(path.Join(w.U2.SrcDir, w.U2.CtlName), w.U2.Ctl)
		for _, f := range w.U2.Files {
			fs.PutQuiet(f.SrcPath, f.Content)
		}
	}
	initial := fs.Snapshot()
	fs.Subject = "U"
	if planIdx > 0 {
		fs.Plan[planIdx] = fault
	}
	simos.Install(fs)
	defer simos.Install(nil)

	key := w.Op + "/" + u.Kind
	ctlDst := path.Join(dst, u.CtlName)
	ctlSrc := path.Join(u.SrcDir, u.CtlName)

	phase2 := false
	// invariants that must hold at every instant of the file-system history
	fs.AfterOp = func(op *simos.Op) {
		if phase2 {
			return // the second operation has its own end-state checks
		}
		if w.Op == "Remove" {
			if _, _, ok := fs.Peek(ctlSrc); !ok {
				for _, f := range u.Files {
					if f.Listed == u.CtlName {
						continue
					}
					if _, _, still := fs.Peek(f.SrcPath); still {
						r.Violate("C20/control-removed-before-file", key, "[%s] after call #%d (%s %s): control file %s is gone while referenced file %s still exists", tag, op.Idx, op.Op, op.Path, ctlSrc, f.SrcPath)
						return
					}
				}
			}
			return
		}
		if _, _, ok := fs.Peek(ctlDst); ok {
			for _, f := range u.Files {
				if f.Listed == u.CtlName {
					continue
				}
				d, _, ok := fs.Peek(path.Join(dst, f.Base))
				if !ok || !bytes.Equal(d, f.Content) {
					state := "absent"
					if ok {
						state = fmt.Sprintf("incomplete or different (%d of %d bytes)", len(d), len(f.Content))
					}
					k := key
					if hasSelf(u) {
						k += "/lists-itself"
					}
					r.Violate("C20/control-visible-before-file", k, "[%s] after call #%d (%s %s by %s): control file %s is visible in the destination while referenced file %s is %s", tag, op.Idx, op.Op, op.Path, op.Task, ctlDst, f.Base, state)
					return
				}
			}
		}
	}

	res := c20Result{}
	uDone := false
	var handleFilename string
	const c20Third = c20Third0
	var err2 error
	second2 := false
	ut := r.Go("U", func() {
		defer func() { uDone = true }()
		var err error
		p := path.Join(u.SrcDir, u.CtlName)
		var h interface {
			Copy(string) error
			Move(string) error
			Remove() error
		}
		filename := func() string { return "" }
		if u.Kind == "dsc" {
			d, e := control.ParseDscFile(p)
			if e != nil {
				res.err, res.returned = e, true
				res.handleFn = "parse"
				return
			}
			h, filename = d, func() string { return d.Filename }
		} else {
			ch, e := control.ParseChangesFile(p)
			if e != nil {
				res.err, res.returned = e, true
				res.handleFn = "parse"
				return
			}
			h, filename = ch, func() string { return ch.Filename }
		}
		switch w.Op {
		case "Copy":
			err = h.Copy(dst)
		case "Move":
			err = h.Move(dst)
		case "Remove":
			err = h.Remove()
		}
		handleFilename = filename()
		res.err, res.returned = err, true
		if err == nil && w.Second != "" {
			// a SECOND operation on the same handle: it must act on where the
			// upload is now
			phase2 = true
			switch w.Second {
			case "Remove":
				err2 = h.Remove()
			case "Move":
				err2 = h.Move(c20Third)
			case "CopyTwin":
				// another upload with the same file names arrives in the same destination
				tp := path.Join(c20Twin, u.CtlName)
				if u.Kind == "dsc" {
					h2, e := control.ParseDscFile(tp)
					if e == nil {
						e = h2.Copy(dst)
					}
					err2 = e
				} else {
					h2, e := control.ParseChangesFile(tp)
					if e == nil {
						e = h2.Copy(dst)
					}
					err2 = e
				}
			}
			second2 = true
		}
	})
	var u2err error
	u2returned := false
	if w.U2 != nil {
		r.Go("U2", func() {
			p := path.Join(w.U2.SrcDir, w.U2.CtlName)
			if w.U2.Kind == "dsc" {
				h, e := control.ParseDscFile(p)
				if e == nil {
					e = h.Copy(dst)
				}
				u2err = e
			} else {
				h, e := control.ParseChangesFile(p)
				if e == nil {
					e = h.Copy(dst)
				}
				u2err = e
			}
			u2returned = true
		})
	}
	if w.Watcher && w.Op != "Remove" {
		r.Go("W", func() {
			sawCreateBeforeWrite := false
			for i := 0; i < 100000 && !uDone && !phase2; i++ {
				fi, err := simos.Stat(ctlDst)
				if err != nil {
					continue
				}
				if fi.Size() == 0 && len(u.Ctl) > 0 {
					sawCreateBeforeWrite = true
				}
				// the watcher processes the upload: every referenced file must be complete
				for _, f := range u.Files {
					if f.Listed == u.CtlName {
						continue
					}
					d, err := simos.ReadFile(path.Join(dst, f.Base))
					if phase2 {
						return // the uploader has gone on to its second operation
					}
					if err != nil || !bytes.Equal(d, f.Content) {
						k := key
						if hasSelf(u) {
							k += "/lists-itself"
						}
						r.Violate("C20/watcher-saw-incomplete-upload", k, "[%s] watcher found %s in the destination but %s is missing or incomplete (err=%v, %d of %d bytes)", tag, u.CtlName, f.Base, err, len(d), len(f.Content))
						return
					}
				}
			}
			if sawCreateBeforeWrite {
				r.Probe("watcher-ran-between-create-and-first-write-of-control-file")
			}
		})
	}
	r.Sched()
	fs.AfterOp = nil
	res.calls = fs.SubjCalls
	res.history = fs.History
	res.crashed = ut.Crashed || fs.Crashed("U")

	if ut.Panic != nil {
		r.Violate("C20/panic", key, "[%s] panic in uploader: %v\n%s", tag, ut.Panic, trimStack(ut.PanicStack))
		return res
	}
	if ut.Budget {
		r.Violate("C20/no-termination", key, "[%s] step budget exhausted", tag)
		return res
	}
	final := fs.Snapshot()

	// confinement over U's whole history
	for _, op := range res.history {
		if op.Task != "U" {
			continue
		}
		for _, p := range []string{op.Path, op.Path2} {
			if p == "" || p == "/" {
				continue
			}
			if !(p == u.SrcDir || path.Dir(p) == u.SrcDir) && !(p == dst || path.Dir(p) == dst) && !(w.Second == "Move" && (p == c20Third0 || path.Dir(p) == c20Third0)) && !(w.Second == "CopyTwin" && (p == c20Twin || path.Dir(p) == c20Twin)) {
				what := "touched"
				switch op.Op {
				case "open", "read":
					what = "read"
				case "create", "write":
					what = "written"
				case "remove":
					what = "deleted"
				case "rename":
					what = "moved"
				}
				if op.Err == "" || op.Op == "open" || op.Op == "create" {
					r.Violate("C20/escapes-directories", w.Op+"/"+u.Kind+"/"+what, "[%s] call #%d: %s %s %s (%s) lies outside %s and %s; listed names: %v", tag, op.Idx, op.Op, op.Path, op.Path2, what, u.SrcDir, dst, listedNames(u))
					break
				}
			}
		}
	}
	// bystanders outside both directories are untouched
	for p, c := range initial {
		if under(p, u.SrcDir) || under(p, dst) {
			continue
		}
		if fc, ok := final[p]; !ok || fc != c {
			r.Violate("C20/outside-file-changed", w.Op+"/"+u.Kind, "[%s] %s (outside source and destination directory) was %s", tag, p, map[bool]string{true: "modified", false: "deleted or moved away"}[ok])
		}
	}
	for p := range final {
		if w.Second == "Move" && under(p, c20Third0) {
			continue
		}
		if _, ok := initial[p]; !ok && !under(p, u.SrcDir) && !under(p, dst) {
			r.Violate("C20/outside-file-changed", w.Op+"/"+u.Kind+"/created", "[%s] %s was created outside source and destination directory", tag, p)
		}
	}
	// U2's files are U2's business
	if w.U2 != nil {
		if u2returned && u2err == nil && w.DstState == "dir" {
			for _, f := range w.U2.Files {
				if d, _, ok := fs.Peek(path.Join(dst, f.Base)); !ok || !bytes.Equal(d, f.Content) {
					r.Violate("C20/second-upload-damaged", key, "[%s] the unrelated upload returned nil but its file %s is missing or different in the destination", tag, f.Base)
				}
			}
		}
		for _, op := range res.history {
			if op.Task == "U" && (strings.HasPrefix(path.Base(op.Path), "zz9") || under(op.Path, w.U2.SrcDir)) {
				r.Violate("C20/touched-other-upload", key, "[%s] U touched %s which belongs to the unrelated upload", tag, op.Path)
				break
			}
		}
	}

	hasEscape := false
	for _, f := range u.Files {
		if f.Escapes {
			hasEscape = true
		}
	}
	_, _, ctlInDst := fs.Peek(ctlDst)
	ctlAtSrc, _, ctlSrcOK := fs.Peek(ctlSrc)
	switch {
	case res.crashed:
		r.Probe("uploader-crashed")
		// process death: only the every-instant invariants apply (checked above)
	case !res.returned:
		r.Violate("C20/harness", key, "[%s] uploader neither returned nor crashed", tag)
	case res.err != nil:
		if w.Op != "Remove" {
			if ctlInDst && !hasSelf(u) && !w.SameDir {
				r.Violate("C20/control-file-in-destination-after-failure", key+"/"+faultClass(fault, planIdx), "[%s] %s returned %q but the control file %s is in the destination (%d bytes, original %d)", tag, w.Op, res.err, u.CtlName, len(final[ctlDst]), len(u.Ctl))
			}
		}
		if w.Op == "Move" || w.Op == "Copy" {
			if !ctlSrcOK || !bytes.Equal(ctlAtSrc, u.Ctl) {
				r.Violate("C20/control-file-lost-from-source-after-failure", key, "[%s] %s returned %q but the control file is no longer intact at its source", tag, w.Op, res.err)
			}
		}
	default: // success
		if second2 {
			r.Probe("second-operation-on-the-same-handle")
			if err2 != nil {
				if planIdx <= 0 {
					r.Violate("C20/second-operation", key+"/then-"+w.Second+"/error", "[%s] %s succeeded, then %s on the same handle failed without any fault: %v", tag, w.Op, w.Second, err2)
				}
				break
			}
			where := dst
			if w.Second == "Move" {
				where = c20Third0
			}
			for _, f := range append(append([]upFile{}, u.Files...), upFile{Base: u.CtlName, Content: u.Ctl}) {
				d, _, ok := fs.Peek(path.Join(where, f.Base))
				_, _, inDst := fs.Peek(path.Join(dst, f.Base))
				switch w.Second {
				case "CopyTwin":
					want := []byte("twin content of " + f.Base)
					if f.Base == u.CtlName {
						want = u.Ctl
					}
					if !ok || !bytes.Equal(d, want) {
						r.Violate("C20/second-operation", key+"/then-CopyTwin/destination", "[%s] a second upload listing the same names was copied into %s: %s there is missing or not the second upload's file", tag, dst, f.Base)
					}
				case "Remove":
					if inDst {
						r.Violate("C20/second-operation", key+"/then-Remove/not-removed", "[%s] %s into %s succeeded, then Remove on the same handle returned nil, but %s is still in %s", tag, w.Op, dst, f.Base, dst)
					}
				case "Move":
					if !ok || !bytes.Equal(d, f.Content) || inDst {
						r.Violate("C20/second-operation", key+"/then-Move/not-moved", "[%s] %s into %s succeeded, then Move to %s on the same handle returned nil, but %s is missing/different there (present=%v) or still in %s (%v)", tag, w.Op, dst, c20Third0, f.Base, ok, dst, inDst)
					}
				}
				if w.Op == "Copy" && !w.SameDir {
					// the source of the original Copy is not the upload's location any more: untouched
					src := f.SrcPath
					if f.Base == u.CtlName {
						src = ctlSrc
					}
					if sd, _, sok := fs.Peek(src); !sok || !bytes.Equal(sd, f.Content) {
						r.Violate("C20/second-operation", key+"/then-"+w.Second+"/source-touched", "[%s] Copy into %s, then %s on the same handle: the ORIGINAL file %s in the source directory was removed or changed", tag, dst, w.Second, src)
					}
				}
			}
			break
		}
		if hasEscape {
			break // confinement is reported above; content expectations are undefined
		}
		if w.Op == "Remove" {
			if ctlSrcOK {
				r.Violate("C20/success-postcondition", key+"/control-still-there", "[%s] Remove returned nil but %s still exists", tag, ctlSrc)
			}
			for _, f := range u.Files {
				if _, _, ok := fs.Peek(f.SrcPath); ok && f.Listed != u.CtlName {
					r.Violate("C20/success-postcondition", key+"/file-still-there", "[%s] Remove returned nil but %s still exists", tag, f.SrcPath)
				}
			}
			break
		}
		if want := dst + "/" + u.CtlName; path.Clean(handleFilename) != want {
			r.Violate("C20/success-postcondition", key+"/handle-filename", "[%s] %s returned nil but handle.Filename is %q, want %q", tag, w.Op, handleFilename, want)
		}
		if d, _, ok := fs.Peek(ctlDst); !ok || !bytes.Equal(d, u.Ctl) {
			r.Violate("C20/success-postcondition", key+"/control-content", "[%s] %s returned nil but the control file in the destination is missing or differs (%d vs %d bytes)", tag, w.Op, len(d), len(u.Ctl))
		}
		for _, f := range u.Files {
			if d, _, ok := fs.Peek(path.Join(dst, f.Base)); !ok || !bytes.Equal(d, f.Content) {
				r.Violate("C20/success-postcondition", key+"/file-content", "[%s] %s returned nil (fault %s) but %s in the destination is missing or differs (%d vs %d bytes)", tag, w.Op, faultClass(fault, planIdx), f.Base, len(d), len(f.Content))
			}
			_, _, atSrc := fs.Peek(f.SrcPath)
			if w.Op == "Move" && atSrc && !w.SameDir {
				r.Violate("C20/success-postcondition", key+"/source-still-there", "[%s] Move returned nil but %s is still at its source", tag, f.SrcPath)
			}
			if w.Op == "Copy" && !atSrc {
				r.Violate("C20/success-postcondition", key+"/source-gone", "[%s] Copy returned nil but %s vanished from the source", tag, f.SrcPath)
			}
		}
		if w.Op == "Move" && ctlSrcOK && !w.SameDir {
			r.Violate("C20/success-postcondition", key+"/source-still-there", "[%s] Move returned nil but the control file is still at its source", tag)
		}
		if w.Op == "Copy" {
			for p, c := range initial {
				if under(p, u.SrcDir) && final[p] != c {
					r.Violate("C20/success-postcondition", key+"/source-changed", "[%s] Copy returned nil but %s in the source directory changed", tag, p)
				}
			}
		}
	}
	return res
}

func faultClass(f simos.Fault, idx int) string {
	if idx <= 0 {
		return "no-fault"
	}
	if f.Kind == "err" {
		return "errno"
	}
	return f.Kind
}

func hasSelf(u *upload) bool {
	for _, f := range u.Files {
		if f.Listed == u.CtlName {
			return true
		}
	}
	return false
}

func listedNames(u *upload) []string {
	out := []string{}
	for _, f := range u.Files {
		out = append(out, f.Listed)
	}
	return out
}

func runC20(r *rt.Run, tier string) {
	t := r.T
	w := &c20Work{}
	w.Op = []string{"Copy", "Move", "Remove"}[t.Weighted([]int{4, 3, 2}, "c20.op")]
	w.U = genUpload(t, r, c20Src, "", t.Bool(1, 3, "c20.oddnames"))
	w.DstState = []string{"dir", "missing", "file"}[t.Weighted([]int{10, 1, 1}, "c20.dst")]
	w.TwoMounts = t.Bool(1, 8, "c20.mounts")
	w.Watcher = t.Bool(1, 2, "c20.watcher")
	w.Stale = t.Bool(1, 6, "c20.stale")
	if w.DstState == "dir" && w.Op == "Copy" && !anyOdd(w.U) && !w.Stale && !w.TwoMounts && t.Bool(1, 12, "c20.hardlinks") {
		w.Hardlinks = true
		r.Probe("destination-holds-hard-links-to-the-source-files")
	}
	if !w.Hardlinks && w.DstState == "dir" && w.Op != "Remove" && !anyOdd(w.U) && t.Bool(1, 10, "c20.samedir") {
		w.SameDir = true
		w.TwoMounts, w.Stale = false, false
		r.Probe("destination-is-the-source-directory")
	}
	if t.Bool(1, 4, "c20.u2") {
		w.U2 = genUpload(t, r, "/queue/incoming/src2", "zz9", false)
	}
	if w.Op != "Remove" && w.DstState == "dir" && !w.SameDir && !w.Hardlinks && !w.TwoMounts && !anyOdd(w.U) && t.Bool(1, 5, "c20.second") {
		w.Second = []string{"Remove", "Move"}[t.Draw(2, "c20.secondop")]
		if w.Op == "Copy" && t.Bool(1, 3, "c20.secondop-twin") {
			w.Second = "CopyTwin"
			r.Probe("second-upload-with-the-same-file-names")
		}
	}
	faulty := t.Bool(2, 3, "config.faulty")
	r.Sticky = t.Draw(6, "sched.sticky")
	if w.Watcher || w.U2 != nil {
		r.NonTrivial = true
	}
	r.Event("workload", w.Op+"/"+w.U.Kind, fmt.Sprintf("files=%v dst=%s mounts=%v watcher=%v u2=%v faulty=%v", listedNames(w.U), w.DstState, w.TwoMounts, w.Watcher, w.U2 != nil, faulty))

	// 1. the fault-free execution of this workload (also yields the call trace length L)
	res0 := c20Exec(r, w, 0, simos.Fault{}, "fault-free")
	L := res0.calls
	if w.DstState == "dir" && !w.TwoMounts && res0.returned && res0.err != nil && !anyOdd(w.U) {
		r.Violate("C20/error-without-fault", w.Op+"/"+w.U.Kind, "fault-free %s of a plain upload failed: %v", w.Op, res0.err)
	}
	if w.TwoMounts && w.Op == "Move" && res0.err != nil {
		r.Probe("EXDEV-on-rename")
	}
	if !faulty || L == 0 {
		r.Stats["config.faultfree"]++
		return
	}
	r.Stats["config.faulty"]++

	// 2. the same workload with one fault at call index idx
	nk := len(c20FaultKinds)
	dstDir := c20Dst
	if w.SameDir {
		dstDir = w.U.SrcDir
	}
	ctlDst := path.Join(dstDir, w.U.CtlName)
	fp := faultIndex(r, L*nk, func() int {
		// bias: calls on the control file in the destination, on the first and the last referenced file
		var ctlOps, firstOps, lastOps []int
		for _, op := range res0.history {
			if op.Task != "U" || op.Idx == 0 {
				continue
			}
			if op.Path == ctlDst || op.Path2 == ctlDst {
				ctlOps = append(ctlOps, op.Idx)
			}
			if n := len(w.U.Files); n > 0 {
				if strings.HasSuffix(op.Path, "/"+w.U.Files[0].Base) || strings.HasSuffix(op.Path2, "/"+w.U.Files[0].Base) {
					firstOps = append(firstOps, op.Idx)
				}
				if strings.HasSuffix(op.Path, "/"+w.U.Files[n-1].Base) || strings.HasSuffix(op.Path2, "/"+w.U.Files[n-1].Base) {
					lastOps = append(lastOps, op.Idx)
				}
			}
		}
		pick := func(l []int) int {
			if len(l) == 0 {
				return 1 + t.Draw(L, "fault.idx")
			}
			return l[t.Draw(len(l), "fault.idx")]
		}
		var idx int
		switch t.Weighted([]int{3, 2, 2, 3}, "fault.where") {
		case 0:
			idx = pick(ctlOps)
		case 1:
			idx = pick(firstOps)
		case 2:
			idx = pick(lastOps)
		default:
			idx = 1 + t.Draw(L, "fault.idx")
		}
		return (idx-1)*nk + t.Draw(nk, "fault.kind")
	})
	idx, kind := fp/nk+1, fp%nk
	// probes about where the fault landed
	for _, op := range res0.history {
		if op.Task == "U" && op.Idx == idx {
			n := len(w.U.Files)
			switch {
			case op.Path == ctlDst && op.Op == "create":
				r.Probe("fault-on-control-file-create")
			case op.Path == ctlDst && op.Op == "write":
				r.Probe("fault-on-control-file-write")
			case op.Path == ctlDst && op.Op == "close":
				r.Probe("fault-on-control-file-close")
			case op.Path2 == ctlDst:
				r.Probe("fault-on-control-file-rename")
			case n > 0 && strings.HasSuffix(op.Path, "/"+w.U.Files[0].Base):
				r.Probe("fault-on-first-file")
			}
			if n > 0 && (strings.HasSuffix(op.Path, "/"+w.U.Files[n-1].Base) || strings.HasSuffix(op.Path2, "/"+w.U.Files[n-1].Base)) {
				r.Probe("fault-on-last-file")
				if c20FaultKinds[kind].Kind == "crash-after" && (op.Op == "close" || op.Op == "rename") {
					r.Probe("crash-between-last-file-and-control-file")
				}
			}
		}
	}
	r.Event("fault-plan", c20FaultNames[kind], fmt.Sprintf("call=%d of %d", idx, L))
	c20Exec(r, w, idx, c20FaultKinds[kind], fmt.Sprintf("%s at call %d/%d", c20FaultNames[kind], idx, L))
}

func anyOdd(u *upload) bool {
	for _, f := range u.Files {
		if f.Listed != f.Base || f.Listed == u.CtlName {
			return true
		}
	}
	return false
}

func init() {
	register(&Prop{
		ID: "C20", Level: "fault_enumeration", Variant: "I", Design: "DESIGN.md §5 C20",
		Rule: "Each run draws an upload (.dsc or .changes handle, 0..6 referenced files of 0..200 KB, listed names plain / with sub/, ./, ../, ../../ components / absolute / the control file's own name), an operation (Copy, Move, Remove), a destination state (directory, missing, regular file, optionally with stale files), one or two mounts (EXDEV), an optional queue-watcher task and an optional unrelated second upload, and executes it on the simulated file system: first fault-free (recording the uploader's call trace of length L), then with one fault at a chosen call: errno return (EIO, ENOSPC, EACCES), short write/read, crash before the call, crash after the call. The thorough tier executes every call index 1..L x every fault kind for each sampled workload. Invariants are evaluated after EVERY file-system call (order, remove order), by the watcher task, and on the final tree (atomic failure, success postconditions, confinement of every path the uploader touched).",
		Run:  runC20, Sweep: true, SweepQuick: 48,
		QuickRuns: 300000, QuickSecs: 40, ThoroughRuns: 60000, ThoroughSecs: 1200,
		Components: map[string]interface{}{
			"real_instrumented": []string{"pault.ag/go/debian/control (ParseDscFile, ParseChangesFile, DSC/Changes.Copy/Move/Remove, AbsFiles)", "pault.ag/go/debian/internal (Copy)"},
			"stub":              []string{"verifsim/simos: in-memory POSIX-like file system replacing package os in the scratch copy (yield, fault and crash point at every call); differentially tested against the real os by ./check selftest simos"},
		},
		Assumptions: []string{"crash = death of the calling process (completed calls persist); power-loss semantics are not modelled because the library never calls fsync and the property does not promise power-fail durability", "after a crash only the every-instant invariants are demanded; the atomic-failure clause is demanded when an error is returned", "a listed name must resolve to a file directly in the control file's own directory: a subdirectory of it is outside (strict reading of the statement)"},
	})
	propProbes["C20"] = []string{"listed-name-is-a-bare-slash", "listed-name-is-another-listed-name-plus-tmp", "second-upload-with-the-same-file-names", "upload-with-dozens-of-files", "name-listed-only-in-checksum-fields", "second-operation-on-the-same-handle", "destination-holds-hard-links-to-the-source-files", "destination-is-the-source-directory", "traversal-name", "absolute-name", "name-with-subdirectory", "control-file-lists-itself", "file-needs-several-read-write-calls", "uploader-crashed", "EXDEV-on-rename", "fault-on-control-file-create", "fault-on-control-file-write", "fault-on-control-file-close", "fault-on-control-file-rename", "fault-on-first-file", "fault-on-last-file", "crash-between-last-file-and-control-file", "watcher-ran-between-create-and-first-write-of-control-file"}
}
