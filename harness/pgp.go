package main

// OpenPGP fixtures and helpers.  Key GENERATION is not reproducible in Go
// (rsa.GenerateKey consumes randomness unpredictably on purpose), so the test
// keys are committed fixtures (harness/fixtures/keys, made once by
// `vh mkkeys`).  SIGNING with RSA/PKCS#1 v1.5 and a fixed signature time is
// byte-deterministic, so signatures are made per run.

import (
	"bytes"
	"fmt"
	"os"
	"path/filepath"
	"time"

	"golang.org/x/crypto/openpgp"
	"golang.org/x/crypto/openpgp/armor"
	"golang.org/x/crypto/openpgp/clearsign"
	"golang.org/x/crypto/openpgp/packet"
)

var pgpKeys []*openpgp.Entity // 0,1: keyring members; 2: outsider; 3: second outsider

const nPGPKeys = 4

func loadKeys() {
	if pgpKeys != nil {
		return
	}
	for i := 0; i < nPGPKeys; i++ {
		b, err := fixturesFS.ReadFile(fmt.Sprintf("fixtures/keys/key-%d.asc", i))
		if err != nil {
			die2("key fixture missing (run `vh mkkeys`): %v", err)
		}
		el, err := openpgp.ReadArmoredKeyRing(bytes.NewReader(b))
		if err != nil || len(el) != 1 {
			die2("key fixture %d unreadable: %v", i, err)
		}
		pgpKeys = append(pgpKeys, el[0])
	}
}

func pgpConfig() *packet.Config {
	return &packet.Config{Time: func() time.Time { return time.Unix(1_700_000_000, 0) }}
}

func mkkeysMain(args []string) {
	dir := "fixtures/keys"
	if len(args) > 0 {
		dir = args[0]
	}
	os.MkdirAll(dir, 0o755)
	for i := 0; i < nPGPKeys; i++ {
		e, err := openpgp.NewEntity(fmt.Sprintf("Verif Test Key %d", i), "fixture", fmt.Sprintf("key%d@verif.invalid", i), &packet.Config{RSABits: 2048, Time: func() time.Time { return time.Unix(1_600_000_000, 0) }})
		if err != nil {
			die2("%v", err)
		}
		var buf bytes.Buffer
		w, _ := armor.Encode(&buf, openpgp.PrivateKeyType, nil)
		if err := e.SerializePrivate(w, nil); err != nil {
			die2("%v", err)
		}
		w.Close()
		os.WriteFile(filepath.Join(dir, fmt.Sprintf("key-%d.asc", i)), buf.Bytes(), 0o644)
	}
	fmt.Println("keys written to", dir)
}

// clearsignDoc signs text with key k (clearsign framework, armored).
func clearsignDoc(k *openpgp.Entity, text []byte) []byte {
	var buf bytes.Buffer
	w, err := clearsign.Encode(&buf, k.PrivateKey, pgpConfig())
	if err != nil {
		panic(err)
	}
	w.Write(text)
	w.Close()
	return buf.Bytes()
}

// detachSign returns a binary detached signature over data.
func detachSign(k *openpgp.Entity, data []byte) []byte {
	var buf bytes.Buffer
	if err := openpgp.DetachSign(&buf, k, bytes.NewReader(data), pgpConfig()); err != nil {
		panic(err)
	}
	return buf.Bytes()
}

func sameEntity(a, b *openpgp.Entity) bool {
	return a != nil && b != nil && a.PrimaryKey != nil && b.PrimaryKey != nil && a.PrimaryKey.KeyId == b.PrimaryKey.KeyId
}

// detachSignText returns a binary detached signature of the TEXT kind (the kind
// the cleartext framework uses) over text.
func detachSignText(k *openpgp.Entity, text []byte) []byte {
	var buf bytes.Buffer
	if err := openpgp.DetachSignText(&buf, k, bytes.NewReader(text), pgpConfig()); err != nil {
		panic(err)
	}
	return buf.Bytes()
}

// armorSignature wraps signature packets in a "PGP SIGNATURE" armor.
func armorSignature(packets []byte) []byte {
	var buf bytes.Buffer
	w, err := armor.Encode(&buf, "PGP SIGNATURE", nil)
	if err != nil {
		panic(err)
	}
	w.Write(packets)
	w.Close()
	buf.WriteByte('\n')
	return buf.Bytes()
}
