package main

// C18  Text parsers are total, deterministic and safe to call concurrently.
//
// Simulated (instrumented variant): 2..8 caller tasks, each with an entry
// point and an independent input; the seeded scheduler switches tasks at
// every stream read and at the run's buggified loop heads / function entries
// inside the parsers, so calls genuinely interleave INSIDE the library.  Each
// task's result under interleaving must equal the result of the same call run
// alone (twice).  Logical steps are counted: a parser that does not terminate
// exhausts the budget deterministically.
//
// Separately (`vh race`, real execution, not simulation): the same task sets
// run on real parallel goroutines in a -race build of the uninstrumented tree.

import (
	"bufio"
	"bytes"
	"encoding/json"
	"flag"
	"fmt"
	"io"
	"os"
	"reflect"
	"regexp"
	"runtime"
	"strings"
	"sync"
	"time"

	"pault.ag/go/debian/changelog"
	"pault.ag/go/debian/control"
	"pault.ag/go/debian/dependency"
	"pault.ag/go/debian/version"
	"verifsim/rt"
	"verifsim/simio"
)

type c18Call struct {
	Entry   string
	Input   []byte
	Chunk   int
	EOFTog  bool
	FailAt  int  // -1 none
	TruncAt int  // -1 none
	OnceAt  int  // -1 none: a transient read error at this offset
	ErrTemp bool // the injected error calls itself temporary / a timeout
	ErrData bool // the sticky error arrives together with the last bytes before it
}

type c18Result struct {
	Value  string // canonical rendering
	Err    string
	Both   string // non-empty: a usable value was returned together with an error
	Incons string // non-empty: the entry point disagrees with its sibling on the same text
	Panic  string
	Budget bool
	HitEIO bool
}

// asReader avoids the typed-nil trap when there is no stream.
func asReader(rd *simio.Reader) io.Reader {
	if rd == nil {
		return nil
	}
	return rd
}

var c18Entries = []string{"version.Parse", "version.UnmarshalText", "dependency.Parse", "dependency.ParseArch", "dependency.ParseArchitectures",
	"ParagraphReader.All", "ParagraphReader.Next", "Unmarshal:DSC", "Unmarshal:Changes", "Unmarshal:SourceParagraph", "Unmarshal:BinaryParagraph", "Unmarshal:[]BinaryIndex", "Unmarshal:[]SourceIndex",
	"ParseDsc", "ParseChanges", "ParseControl", "ParseBinaryIndex", "ParseSourceIndex", "changelog.Parse", "changelog.ParseOne", "Decoder.Decode:BinaryIndex", "Unmarshal:probe-struct"}

func isStream(entry string) bool {
	return !strings.HasPrefix(entry, "version.") && !strings.HasPrefix(entry, "dependency.")
}

func canon(v interface{}) string {
	b, err := json.Marshal(v)
	if err != nil {
		return fmt.Sprintf("%+v", v)
	}
	return string(b)
}

func usable(v interface{}) string {
	rv := reflect.ValueOf(v)
	switch rv.Kind() {
	case reflect.Ptr:
		if !rv.IsNil() {
			return "non-nil " + rv.Type().String()
		}
	case reflect.Slice, reflect.Map:
		if rv.Len() > 0 {
			return fmt.Sprintf("%s of length %d", rv.Type().String(), rv.Len())
		}
	}
	return ""
}

// c18BufSize > 0: the caller's bufio.Reader (for the entry points that take
// one) or the reader handed in (for those that take an io.Reader) has this size
// instead of bufio's default.
var c18BufSize int

func c18Bufio(rd io.Reader) *bufio.Reader {
	if c18BufSize > 0 {
		return bufio.NewReaderSize(rd, c18BufSize)
	}
	return bufio.NewReader(rd)
}

// c18Invoke performs one call.  rd is the stream for stream entry points.
func c18Invoke(entry string, input []byte, rd io.Reader) (res c18Result) {
	var val interface{}
	var err error
	checkBoth := true
	if c18BufSize > 0 && rd != nil {
		rd = bufio.NewReaderSize(rd, c18BufSize)
	}
	switch entry {
	case "version.Parse":
		v, e := version.Parse(string(input))
		val, err, checkBoth = v, e, false
	case "version.UnmarshalText":
		// the []byte entry point; the caller re-uses its buffer once the call has returned
		buf := append([]byte(nil), input...)
		var v version.Version
		e := v.UnmarshalText(buf)
		for i := range buf {
			buf[i] = 'X'
		}
		val, err, checkBoth = v, e, false
		if ref, e2 := version.Parse(string(input)); (e == nil) != (e2 == nil) || (e == nil && canon(v) != canon(ref)) {
			res.Incons = fmt.Sprintf("UnmarshalText gives %s (err=%v) once the caller has re-used its buffer, Parse of the same text gives %s (err=%v)", canon(v), e, canon(ref), e2)
		}
	case "dependency.Parse":
		val, err = dependency.Parse(string(input))
	case "dependency.ParseArch":
		v, e := dependency.ParseArch(string(input))
		val, err = v, e
	case "dependency.ParseArchitectures":
		val, err = dependency.ParseArchitectures(string(input))
	case "ParagraphReader.All":
		pr, e := control.NewParagraphReader(rd, nil)
		if e != nil {
			err = e
			break
		}
		val, err = pr.All()
	case "ParagraphReader.Next":
		// the iterator itself, called the way All calls it, looking at BOTH results of every call
		pr, e := control.NewParagraphReader(rd, nil)
		if e != nil {
			err = e
			break
		}
		var ps []control.Paragraph
		for i := 0; i < 100000; i++ {
			p, e := pr.Next()
			if e != nil {
				if e != io.EOF {
					err = e
				}
				if p != nil && e != io.EOF {
					res.Both = fmt.Sprintf("non-nil *Paragraph (fields %v) from Next", p.Order)
				}
				break
			}
			if p == nil {
				err = fmt.Errorf("Next returned (nil, nil)")
				break
			}
			ps = append(ps, *p)
		}
		val, checkBoth = ps, false
		if err != nil {
			val = nil
		}
	case "Unmarshal:DSC":
		var x control.DSC
		err = control.Unmarshal(&x, rd)
		val, checkBoth = x, false
	case "Unmarshal:Changes":
		var x control.Changes
		err = control.Unmarshal(&x, rd)
		val, checkBoth = x, false
	case "Unmarshal:SourceParagraph":
		var x control.SourceParagraph
		err = control.Unmarshal(&x, rd)
		val, checkBoth = x, false
	case "Unmarshal:BinaryParagraph":
		var x control.BinaryParagraph
		err = control.Unmarshal(&x, rd)
		val, checkBoth = x, false
	case "Unmarshal:[]BinaryIndex":
		var x []control.BinaryIndex
		err = control.Unmarshal(&x, rd)
		val, checkBoth = x, false
	case "Unmarshal:[]SourceIndex":
		var x []control.SourceIndex
		err = control.Unmarshal(&x, rd)
		val, checkBoth = x, false
	case "ParseDsc":
		val, err = control.ParseDsc(c18Bufio(rd), "/x/y.dsc")
	case "ParseChanges":
		val, err = control.ParseChanges(c18Bufio(rd), "/x/y.changes")
	case "ParseControl":
		val, err = control.ParseControl(c18Bufio(rd), "/x/debian/control")
	case "ParseBinaryIndex":
		val, err = control.ParseBinaryIndex(c18Bufio(rd))
	case "ParseSourceIndex":
		val, err = control.ParseSourceIndex(c18Bufio(rd))
	case "changelog.Parse":
		val, err = changelog.Parse(rd)
	case "changelog.ParseOne":
		// the single-entry parser, called until it reports the end
		br := c18Bufio(rd)
		var es []changelog.ChangelogEntry
		for i := 0; i < 100000; i++ {
			e, e2 := changelog.ParseOne(br)
			if e2 != nil {
				if e2 != io.EOF {
					err = e2
				}
				if e != nil && e2 != io.EOF {
					res.Both = "non-nil *ChangelogEntry from ParseOne"
				}
				break
			}
			if e == nil {
				err = fmt.Errorf("ParseOne returned (nil, nil)")
				break
			}
			es = append(es, *e)
		}
		val, checkBoth = es, false
		if err != nil {
			val = nil
		}
	case "Unmarshal:probe-struct":
		// every field kind and tag option the decoder distinguishes (the library's own
		// document types have no unsigned, boolean or numeric-list members)
		var x c09All
		err = control.Unmarshal(&x, rd)
		x.SkipFunc = nil
		val, checkBoth = struct {
			N     int
			U     uint
			B     bool
			Ints  []int
			Uints []uint
			Name  string
			Lists [][]string
		}{x.N, x.U, x.B, x.Ints, x.Uints, x.Name, [][]string{x.ListSp, x.ListComma, x.ListNL, x.ListStrip, x.ReqList}}, false
	case "Decoder.Decode:BinaryIndex":
		// one Decoder, one struct per call
		dec, e := control.NewDecoder(rd, nil)
		if e != nil {
			err = e
			break
		}
		var xs []control.BinaryIndex
		for i := 0; i < 100000; i++ {
			var x control.BinaryIndex
			if e := dec.Decode(&x); e != nil {
				if e != io.EOF {
					err = e
				}
				break
			}
			xs = append(xs, x)
		}
		val, checkBoth = xs, false
		if err != nil {
			val = nil
		}
	default:
		panic("unknown entry " + entry)
	}
	res.Value = canon(val)
	if err != nil {
		res.Err = err.Error()
		if checkBoth {
			res.Both = usable(val)
		}
	} else if entry != "ParagraphReader.Next" && entry != "changelog.ParseOne" {
		res.Both = ""
	}
	return
}

// c18InvokeSafe is c18Invoke for the real-execution part: a panic becomes an
// outcome like any other (the same in parallel and alone - panics are judged
// by the simulation, where a task's panic is trapped and reported).
func c18InvokeSafe(entry string, input []byte, rd io.Reader) (res c18Result) {
	defer func() {
		if p := recover(); p != nil {
			res = c18Result{Err: fmt.Sprintf("PANIC: %v", p)}
		}
	}()
	return c18Invoke(entry, input, rd)
}

// plain chunking reader for the race part (no simulator involved)
type chunkReader struct {
	data    []byte
	pos     int
	chunk   int
	failAt  int
	truncAt int
}

func (c *chunkReader) Read(p []byte) (int, error) {
	lim := len(c.data)
	if c.truncAt >= 0 && c.truncAt < lim {
		lim = c.truncAt
	}
	if c.failAt >= 0 && c.failAt <= lim {
		if c.pos >= c.failAt {
			return 0, simio.ErrIO
		}
		lim = c.failAt
	}
	if c.pos >= lim {
		return 0, io.EOF
	}
	n := lim - c.pos
	if n > len(p) {
		n = len(p)
	}
	if c.chunk > 0 && n > c.chunk {
		n = c.chunk
	}
	copy(p, c.data[c.pos:c.pos+n])
	c.pos += n
	return n, nil
}

// --- inputs -----------------------------------------------------------------

func c18Seed(t *rt.Tape, r *rt.Run, entry string) []byte {
	switch {
	case strings.HasPrefix(entry, "version."):
		return []byte(genVersion(t, "c18.ver").Text)
	case entry == "dependency.Parse":
		return []byte(genDep(t, depOpts{Substvars: true, Stages: true, MaxRels: 4}, "c18.dep").render(t.Bool(1, 2, "c18.fold")))
	case strings.HasPrefix(entry, "dependency.ParseArch"):
		return []byte(strings.Join(archTexts(genArchList(t, "c18.arch")), " "))
	case entry == "Unmarshal:probe-struct":
		m := genC09All(t, r)
		var b bytes.Buffer
		if err := control.Marshal(&b, &m.v); err != nil {
			return []byte("Req: x\nReq-List: y\nU: 5\nN: -3\nX-Uints: 1, 2\n")
		}
		return b.Bytes()
	case strings.HasPrefix(entry, "changelog."):
		_, doc := genChangelog(t, "quick")
		return doc
	case strings.Contains(entry, "DSC") || entry == "ParseDsc":
		src := genPkgName(t, "c18.src")
		return []byte(genDSC(t, "c18.dsc", src, []string{src, src + "-dev"}, depOpts{MaxRels: 3}).render())
	case strings.Contains(entry, "Changes"):
		return []byte(genChanges(t, "c18.chg").render())
	case strings.Contains(entry, "BinaryIndex"):
		return []byte(genBinIndex(t, "c18.pkgs", 0).render() + "\n" + genBinIndex(t, "c18.pkgs", 1).render())
	case strings.Contains(entry, "SourceIndex"):
		return []byte(genSrcIndex(t, "c18.srcs", 0).render())
	case strings.Contains(entry, "Paragraph") && !strings.HasPrefix(entry, "ParagraphReader."), entry == "ParseControl":
		return []byte(genControlFile(t, "c18.ctl").render())
	}
	_, doc, _ := genDoc(t, docGenOpts{MinParas: 0, MaxParas: 3, MaxFields: 4, Comments: true, AllowCRLF: true}, r)
	return doc
}

var zoneRe = regexp.MustCompile(` [+-][0-9]{4}\n`)

// the date of a changelog trailer: "  Mon, 02 Jan 2006 15:04:05 "
var dateRe = regexp.MustCompile(`  ([A-Z][a-z]{2}), ([0-9]{2}) ([A-Z][a-z]{2}) ([0-9]{4}) `)

func c18Mutate(t *rt.Tape, data []byte) []byte {
	out := append([]byte(nil), data...)
	n := 1 + t.Draw(4, "mut.n")
	tokens := []string{" CET", " EST", " UTC", " +0100", "(", ")", "[", "]", "<", ">", "|", ",", "${", "}", ":", "!", "=", ">=", "<<", " ", "\n", "\n\n", "\t", "\x00", "\xff\xfe", "~", "-", "+", "0", "999999999999999999999", "é", " -- ", "  ", ";", "urgency=", "(1.0)", " .\n", "#", "\r\n"}
	for i := 0; i < n; i++ {
		p := 0
		if len(out) > 0 {
			p = t.Draw(len(out)+1, "mut.pos")
		}
		switch t.Draw(10, "mut.op") {
		case 9: // a field's value emptied, or an element of a list emptied
			ls := strings.SplitAfter(string(out), "\n")
			li := t.Draw(len(ls), "mut.line")
			if i := strings.Index(ls[li], ":"); i > 0 && ls[li][0] != ' ' && ls[li][0] != '#' {
				if j := strings.Index(ls[li], ", "); j > i && t.Bool(1, 2, "mut.emptyelem") {
					ls[li] = ls[li][:j] + ",," + ls[li][j+1:]
				} else {
					ls[li] = ls[li][:i+1] + []string{"\n", " \n", "  \t\n"}[t.Draw(3, "mut.emptykind")]
				}
				out = []byte(strings.Join(ls, ""))
			}
		case 8: // another spelling of a trailer date (some are legal for dpkg, none is RFC 1123 with two-digit day)
			if m := dateRe.FindSubmatchIndex(out); m != nil {
				wd, dd, mon, yyyy := string(out[m[2]:m[3]]), string(out[m[4]:m[5]]), string(out[m[6]:m[7]]), string(out[m[8]:m[9]])
				var alt string
				switch t.Draw(7, "mut.date") {
				case 0:
					alt = fmt.Sprintf("  %s, %s %s %s ", wd, strings.TrimPrefix(dd, "0"), mon, yyyy) // one-digit day
				case 1:
					alt = fmt.Sprintf("  %s %s %s ", dd, mon, yyyy) // no day of week
				case 2:
					alt = fmt.Sprintf("  %s %s %s ", strings.TrimPrefix(dd, "0"), mon, yyyy)
				case 3:
					alt = fmt.Sprintf("  %s, %s %s %s ", wd, dd, strings.ToLower(mon), yyyy)
				case 4:
					alt = fmt.Sprintf("  %s, %s %s %s ", wd, dd, mon, yyyy[2:]) // two-digit year
				case 5:
					alt = fmt.Sprintf("  %sday, %s %s %s ", wd, dd, mon, yyyy)
				default:
					alt = fmt.Sprintf("  %s-%s-%s ", yyyy, "01", dd) // ISO-like
				}
				out = append(append(append([]byte{}, out[:m[0]]...), []byte(alt)...), out[m[1]:]...)
			}
		case 7: // a numeric zone offset replaced by a zone abbreviation
			if loc := zoneRe.FindIndex(out); loc != nil {
				abbr := []string{" CET", " EST", " UTC", " CEST", " XYZ"}[t.Draw(5, "mut.abbr")]
				out = append(append(append([]byte{}, out[:loc[0]]...), []byte(abbr+"\n")...), out[loc[1]:]...)
			}
		case 6: // repeat a field line with another spelling of its name and another value
			ls := strings.SplitAfter(string(out), "\n")
			li := t.Draw(len(ls), "mut.line")
			if i := strings.Index(ls[li], ":"); i > 0 && ls[li][0] != ' ' && ls[li][0] != '#' {
				name := ls[li][:i]
				alt := strings.ToUpper(name)
				if t.Bool(1, 2, "mut.case") {
					alt = strings.ToLower(name)
				}
				extra := alt + ": other-" + strings.TrimSpace(ls[li][i+1:]) + "\n"
				if t.Bool(1, 2, "mut.both") {
					ls[li] = strings.ToLower(name) + ls[li][i:]
				}
				ls = append(ls[:li+1], append([]string{extra}, ls[li+1:]...)...)
				out = []byte(strings.Join(ls, ""))
			}
		case 0: // insert token
			tok := tokens[t.Draw(len(tokens), "mut.tok")]
			out = append(out[:p], append([]byte(tok), out[p:]...)...)
		case 1: // delete a run
			if p < len(out) {
				q := min(len(out), p+1+t.Draw(8, "mut.len"))
				out = append(out[:p], out[q:]...)
			}
		case 2: // flip a byte
			if p < len(out) {
				out[p] ^= byte(1 << uint(t.Draw(8, "mut.bit")))
			}
		case 3: // duplicate a run
			if p < len(out) {
				q := min(len(out), p+1+t.Draw(40, "mut.len"))
				out = append(out[:q], append(append([]byte{}, out[p:q]...), out[q:]...)...)
			}
		case 4: // truncate
			out = out[:p]
		case 5: // very long token
			tok := strings.Repeat(tokens[t.Draw(len(tokens), "mut.tok")], 50+t.Draw(2000, "mut.rep"))
			out = append(out[:p], append([]byte(tok), out[p:]...)...)
		}
		if len(out) > 65536 {
			out = out[:65536]
		}
	}
	return out
}

func c18GenCalls(t *rt.Tape, r *rt.Run) []c18Call {
	n := t.Range(2, 8, "c18.tasks")
	var calls []c18Call
	var seeds [][]byte
	for i := 0; i < n; i++ {
		c := c18Call{Entry: c18Entries[t.Draw(len(c18Entries), "c18.entry")], FailAt: -1, TruncAt: -1, OnceAt: -1}
		seed := c18Seed(t, r, c.Entry)
		seeds = append(seeds, seed)
		switch t.Weighted([]int{3, 5, 1, 1}, "c18.inputkind") {
		case 0:
			c.Input = seed
		case 1:
			c.Input = c18Mutate(t, seed)
		case 2: // splice of two seeds
			o := seeds[t.Draw(len(seeds), "c18.splice")]
			c.Input = append(append([]byte{}, seed[:t.Draw(len(seed)+1, "c18.cut")]...), o[t.Draw(len(o)+1, "c18.cut2"):]...)
		case 3: // raw bytes
			c.Input = t.Sub("c18.raw").Bytes(t.Range(0, 300, "c18.rawlen"))
		}
		if isStream(c.Entry) {
			c.Chunk = []int{0, 1, 7, 64, 4096}[t.Draw(5, "c18.chunk")]
			c.EOFTog = t.Bool(1, 3, "c18.eoftog")
			switch t.Weighted([]int{8, 1, 1, 1}, "c18.streamfault") {
			case 1:
				c.FailAt = t.Draw(len(c.Input)+1, "c18.failat")
			case 2:
				c.TruncAt = t.Draw(len(c.Input)+1, "c18.truncat")
			case 3:
				c.OnceAt = t.Draw(len(c.Input)+1, "c18.onceat")
			}
			if c.FailAt >= 0 || c.OnceAt >= 0 {
				c.ErrTemp = t.Bool(1, 3, "c18.errtemporary")
				c.ErrData = t.Bool(1, 4, "c18.errwithdata")
			}
		}
		calls = append(calls, c)
	}
	return calls
}

func c18Reader(r *rt.Run, c c18Call, name string) *simio.Reader {
	if !isStream(c.Entry) {
		return nil
	}
	rd := simio.NewFixedReader(r, name, c.Input, c.Chunk, c.EOFTog)
	if c.FailAt >= 0 {
		rd.FailAt(c.FailAt)
	}
	if c.TruncAt >= 0 {
		rd.TruncateAt(c.TruncAt)
	}
	if c.OnceAt >= 0 {
		rd.FailOnceAt(c.OnceAt)
	}
	if c.ErrTemp {
		r.Probe("read-error-that-calls-itself-temporary")
	}
	rd.SetErrFlavour(c.ErrTemp, c.ErrData)
	return rd
}

func c18Solo(r *rt.Run, c c18Call, name string) c18Result {
	var res c18Result
	rd := c18Reader(r, c, name)
	task := r.Solo(name, func() { res = c18Invoke(c.Entry, c.Input, asReader(rd)) })
	res.HitEIO = rd != nil && rd.Failed()
	if task.Panic != nil {
		res.Panic = fmt.Sprintf("%v\n%s", task.Panic, trimStack(task.PanicStack))
	}
	res.Budget = task.Budget
	return res
}

func runC18(r *rt.Run, tier string) {
	t := r.T
	// any map iteration inside the parsers runs in a tape-chosen order: a result
	// that depends on it differs between the solo, interleaved and repeated call
	r.EnableMapOrder(true)
	calls := c18GenCalls(t, r)
	// buggified sites: a random subset of the instrumented loop heads / function entries yields
	sites := map[int]bool{}
	total := rt.TotalSites()
	sub := t.Sub("c18.sites")
	density := []int{4, 8, 32}[t.Draw(3, "c18.density")]
	for i := 0; i < total; i++ {
		if sub.Intn(density) == 0 {
			sites[i] = true
		}
	}
	r.Sticky = t.Draw(4, "sched.sticky")
	maxIn := 0
	for _, c := range calls {
		if len(c.Input) > maxIn {
			maxIn = len(c.Input)
		}
	}
	// measured on the unchanged tree: at most 2 steps per (call x phase x input
	// byte + 100); 40 leaves a factor of 20 and keeps a hanging parser cheap to catch
	r.StepBudget = int64(len(calls)*4) * int64(40*(maxIn+100))
	r.Event("workload", fmt.Sprintf("tasks=%d", len(calls)), fmt.Sprintf("yield-sites=%d/%d", len(sites), total))

	// 1. each call alone
	solo := make([]c18Result, len(calls))
	for i, c := range calls {
		solo[i] = c18Solo(r, c, fmt.Sprintf("solo%d", i))
		key := c.Entry
		if solo[i].Panic != "" {
			r.Violate("C18/panic", key, "panic on input %q: %s", clip(string(c.Input), 200), solo[i].Panic)
			return
		}
		if solo[i].Budget {
			r.Violate("C18/no-termination", key, "step budget exhausted on a %d-byte input %q", len(c.Input), clip(string(c.Input), 200))
			return
		}
		if solo[i].Both != "" {
			r.Violate("C18/value-and-error", key, "returned %s together with error %q (input %q)", solo[i].Both, clip(solo[i].Err, 100), clip(string(c.Input), 150))
		}
		if c.OnceAt >= 0 && solo[i].Err == "" {
			// one read failed once (the stream went on): no error was reported, so
			// the result must be the intact stream's
			clean := c
			clean.OnceAt = -1
			ref := c18Solo(r, clean, fmt.Sprintf("intact%d", i))
			if ref.Value != solo[i].Value || ref.Err != "" {
				r.Violate("C18/fault-changed-the-result", key, "one read failed once at byte %d of %d and no error was reported, but the result differs from the intact stream's: %s vs %s (err %q)", c.OnceAt, len(c.Input), clip(solo[i].Value, 200), clip(ref.Value, 200), ref.Err)
			}
			r.Probe("transient-read-fault")
		}
		if c.FailAt >= 0 && solo[i].HitEIO && solo[i].Err == "" {
			// The stream reported EIO and the call returned nil.  That is only
			// wrong if the result differs from what the intact stream gives (a
			// call that had everything it needed before the failure point may
			// succeed: an operation may fail, never succeed with wrong data).
			clean := c
			clean.FailAt = -1
			ref := c18Solo(r, clean, fmt.Sprintf("intact%d", i))
			if ref.Value != solo[i].Value || ref.Err != "" {
				r.Violate("C18/io-error-swallowed", key, "stream failed with EIO at %d of %d, the call returned nil error and a result that differs from the intact stream's: %s vs %s (err %q)", c.FailAt, len(c.Input), clip(solo[i].Value, 200), clip(ref.Value, 200), ref.Err)
			} else {
				r.Probe("eio-after-the-call-had-all-it-needed")
			}
		}
		if isStream(c.Entry) && c.FailAt < 0 && c.OnceAt < 0 {
			// the outcome depends only on the bytes, not on how the stream hands them out
			alt := c
			alt.Chunk = []int{1, 0, 4096, 7}[t.Draw(4, "c18.altchunk")]
			alt.EOFTog = !c.EOFTog
			if alt.Chunk != c.Chunk {
				other := c18Solo(r, alt, fmt.Sprintf("altdelivery%d", i))
				if other.Value != solo[i].Value || other.Err != solo[i].Err {
					r.Violate("C18/result-depends-on-delivery", key, "the same %d bytes delivered %d bytes per read: value=%s err=%q; delivered %d bytes per read: value=%s err=%q", len(c.Input), c.Chunk, clip(solo[i].Value, 200), solo[i].Err, alt.Chunk, clip(other.Value, 200), other.Err)
				}
				r.Probe("same-bytes-other-delivery")
			}
		}
		if isStream(c.Entry) && c.FailAt < 0 && c.OnceAt < 0 && t.Bool(1, 3, "c18.altbuf") {
			// ... nor on the size of the buffered reader it is read through
			c18BufSize = []int{65536, 16384, 5000}[t.Draw(3, "c18.altbufsize")]
			other := c18Solo(r, c, fmt.Sprintf("altbuf%d", i))
			c18BufSize = 0
			if other.Value != solo[i].Value || other.Err != solo[i].Err {
				r.Violate("C18/result-depends-on-buffer-size", key, "the same %d bytes read through bufio's default buffer: value=%s err=%q; through a larger buffer: value=%s err=%q", len(c.Input), clip(solo[i].Value, 200), solo[i].Err, clip(other.Value, 200), other.Err)
			}
			r.Probe("same-bytes-other-buffer-size")
		}
		if solo[i].Incons != "" {
			r.Violate("C18/result-depends-on-callers-buffer", key, "%s", solo[i].Incons)
		}
		if c.FailAt < 0 && c.OnceAt < 0 && t.Bool(1, 4, "c18.altzone") {
			// the outcome depends only on the input - not on the process time zone
			saved := time.Local
			time.Local = time.FixedZone([]string{"CET", "EST", "SIM"}[t.Draw(3, "c18.zonename")], []int{3600, -18000, 19800}[t.Draw(3, "c18.zoneoff")])
			other := c18Solo(r, c, fmt.Sprintf("altzone%d", i))
			time.Local = saved
			if other.Value != solo[i].Value || other.Err != solo[i].Err {
				r.Violate("C18/result-depends-on-process-time-zone", key, "the same input parsed under another process time zone: value=%s err=%q vs value=%s err=%q", clip(solo[i].Value, 200), solo[i].Err, clip(other.Value, 200), other.Err)
			}
			r.Probe("same-input-other-process-time-zone")
		}
		if solo[i].Err == "" {
			r.Probe("call-succeeded")
		} else {
			r.Probe("call-returned-error")
		}
	}
	// 2. all calls interleaved by the seeded scheduler
	r.SetYieldSites(sites)
	inter := make([]c18Result, len(calls))
	tasks := make([]*rt.Task, len(calls))
	for i, c := range calls {
		i, c := i, c
		rd := c18Reader(r, c, fmt.Sprintf("t%d", i))
		tasks[i] = r.Go(fmt.Sprintf("T%d", i), func() { inter[i] = c18Invoke(c.Entry, c.Input, asReader(rd)) })
	}
	r.Sched()
	r.SetYieldSites(nil)
	if r.Stats["ctx_switches"] > int64(len(calls)) {
		r.Probe("calls-interleaved-inside-parsers")
	}
	for i, c := range calls {
		if tasks[i].Panic != nil {
			r.Violate("C18/panic", c.Entry+"/interleaved", "panic under interleaving: %v\n%s", tasks[i].Panic, trimStack(tasks[i].PanicStack))
			return
		}
		if tasks[i].Budget {
			r.Violate("C18/no-termination", c.Entry+"/interleaved", "step budget exhausted under interleaving")
			return
		}
		if inter[i].Value != solo[i].Value || inter[i].Err != solo[i].Err {
			r.Violate("C18/result-depends-on-interleaving", c.Entry, "alone: value=%s err=%q\ninterleaved with %d other calls: value=%s err=%q", clip(solo[i].Value, 300), solo[i].Err, len(calls)-1, clip(inter[i].Value, 300), inter[i].Err)
		}
	}
	// 3. each call alone once more (determinism, and no state left behind)
	for i, c := range calls {
		again := c18Solo(r, c, fmt.Sprintf("again%d", i))
		if again.Value != solo[i].Value || again.Err != solo[i].Err || again.Panic != "" {
			r.Violate("C18/nondeterministic-result", c.Entry, "first: value=%s err=%q\nagain: value=%s err=%q panic=%q", clip(solo[i].Value, 300), solo[i].Err, clip(again.Value, 300), again.Err, again.Panic)
		}
	}
}

// ---------------------------------------------------------------------------
// the race part: real goroutines, -race build, uninstrumented tree

func raceMain(fs *flag.FlagSet, args []string) {
	prop := fs.String("prop", "C18", "")
	seed := fs.Uint64("seed", 1, "")
	n := fs.Int("n", 300, "task sets")
	from := fs.Int("from", 0, "")
	out := fs.String("out", "", "")
	fs.Parse(args)
	runtime.GOMAXPROCS(16)
	if *prop == "C15" {
		raceC15(*seed, *from, *n, *out)
		return
	}
	mismatches := 0
	calls := 0
	var firstMsg string
	firstIdx := -1
	for idx := *from; idx < *from+*n; idx++ {
		tape := rt.NewTape(runSeed(*seed, "C18", idx))
		r := rt.NewRun(tape)
		cs := c18GenCalls(tape, r)
		ref := make([]c18Result, len(cs))
		mk := func(c c18Call) io.Reader {
			if !isStream(c.Entry) {
				return nil
			}
			return &chunkReader{data: c.Input, chunk: c.Chunk, failAt: c.FailAt, truncAt: c.TruncAt}
		}
		// the parallel phase comes FIRST, on whatever lazily initialised or
		// cached state the library has not yet built (a warm cache hides races)
		got := make([]c18Result, len(cs))
		var wg sync.WaitGroup
		start := make(chan struct{})
		for i, c := range cs {
			wg.Add(1)
			go func(i int, c c18Call) {
				defer wg.Done()
				<-start
				for rep := 0; rep < 3; rep++ {
					got[i] = c18InvokeSafe(c.Entry, c.Input, mk(c))
				}
			}(i, c)
		}
		close(start)
		wg.Wait()
		for i, c := range cs {
			ref[i] = c18InvokeSafe(c.Entry, c.Input, mk(c))
		}
		for i := range cs {
			calls++
			if got[i].Value != ref[i].Value || got[i].Err != ref[i].Err {
				mismatches++
				if firstIdx < 0 {
					firstIdx = idx
					firstMsg = fmt.Sprintf("task set %d call %d (%s): alone %s / %q, in parallel %s / %q", idx, i, cs[i].Entry, clip(ref[i].Value, 200), ref[i].Err, clip(got[i].Value, 200), got[i].Err)
				}
			}
		}
	}
	res := map[string]interface{}{"task_sets": *n, "calls_run_in_parallel": calls, "result_mismatches": mismatches, "first_mismatch": firstMsg, "first_index": firstIdx, "gomaxprocs": 16, "race_detector": raceEnabled}
	if *out != "" {
		writeJSON(*out, res)
	}
	fmt.Printf("race part: %d task sets, %d calls on real goroutines (GOMAXPROCS=16, race detector=%v), %d result mismatches\n", *n, calls, raceEnabled, mismatches)
	if mismatches > 0 {
		os.Exit(3)
	}
}

var _ = bytes.Equal

func init() {
	register(&Prop{
		ID: "C18", Level: "exploration", Variant: "I", Design: "DESIGN.md §5 C18",
		Rule:      "Each run draws 2..8 calls: an entry point out of 17 (version.Parse, dependency.Parse/ParseArch/ParseArchitectures, ParagraphReader.All, Unmarshal into DSC/Changes/SourceParagraph/BinaryParagraph/[]BinaryIndex/[]SourceIndex, ParseDsc/ParseChanges/ParseControl/ParseBinaryIndex/ParseSourceIndex, changelog.Parse) and an input: a grammar-derived seed, a mutated seed (token insertion, run deletion/duplication, bit flips, truncation, very long tokens, NUL and >=0x80 bytes), a splice of two seeds, or raw bytes (up to 64 KiB); streams get a chunk size, an EOF style and optionally EIO or early EOF at byte k. Every call runs alone, then all calls run as tasks interleaved by the seeded scheduler at every stream read and at a tape-chosen subset (1/4, 1/8 or 1/32) of the instrumented loop heads and function entries, then every call runs alone again. A separate real-execution part runs the same task sets on parallel goroutines in a -race build.",
		Run:       runC18,
		QuickRuns: 30000, QuickSecs: 35, ThoroughRuns: 1_500_000, ThoroughSecs: 900,
		Components: map[string]interface{}{
			"real_instrumented": []string{"pault.ag/go/debian/version, dependency, control, changelog (all parsers; Step() at every function entry and loop head)"},
			"real":              []string{"race part: the uninstrumented /repo tree built with -race, real goroutines, GOMAXPROCS=16 (real execution, not simulation; its replay re-runs the task set but cannot pin the interleaving)"},
			"stub":              []string{"simio.Reader (fixed-chunk profiles so that solo and interleaved runs see the same delivery)"},
		},
		Assumptions: []string{"inputs are grammar-derived seeds under tape-driven mutation and raw bytes; coverage-guided fuzzing (named in the quantifier) is a different technique", "value-typed results (version.Version, structs filled through Unmarshal) are exempt from the value-or-error clause: the value always exists", "results are compared through their JSON rendering"},
	})
	propProbes["C18"] = []string{"same-bytes-other-buffer-size", "read-error-that-calls-itself-temporary", "transient-read-fault", "same-input-other-process-time-zone", "same-bytes-other-delivery", "call-succeeded", "call-returned-error", "calls-interleaved-inside-parsers"}
}
