package main

// deb822 document model, renderer and an independent reference reader
// (written from Debian Policy §5.1 / deb822(5); shares no code with /repo).

import (
	"fmt"
	"strings"
	"unicode"

	"pault.ag/go/debian/control"
	"verifsim/rt"
)

type mField struct {
	Name  string
	Lines []string // logical lines (expected): trimmed first line (if any) + continuation lines
}

type mPara struct {
	Fields []mField
}

func (p *mPara) get(name string) *mField {
	for i := range p.Fields {
		if p.Fields[i].Name == name {
			return &p.Fields[i]
		}
	}
	return nil
}

type docGenOpts struct {
	MaxParas                int
	MinParas                int
	MaxFields               int
	Comments                bool
	AllowCRLF               bool
	AllowLong               bool
	DashLines               bool // lines starting with '-' (forces dash-escaping when clearsigned)
	NoTrailingBlanksOnLines bool
	ExoticBlanks            bool // continuation lines made of non-ASCII white space only
}

var fieldNameStock = []string{"Package", "Version", "Source", "Description", "Depends", "X-Foo", "Maintainer", "Section", "Files", "Checksums-Sha256", "Homepage", "a", "B9", "X-Very-Long-Field-Name-0123456789"}

func genFieldName(t *rt.Tape, used map[string]bool) string {
	for tries := 0; ; tries++ {
		var n string
		if t.Bool(3, 4, "f.stock") {
			n = fieldNameStock[t.Draw(len(fieldNameStock), "f.name")]
		} else {
			n = genFrom(t, "ABCDEFGHIJKLMNOPQRSTUVWXYZabcdefghijklmnopqrstuvwxyz", 1, 1, "f.n0") + genFrom(t, "abcdefghijklmnopqrstuvwxyzABC0123456789-", 0, 10, "f.n")
		}
		if tries > 20 {
			n = fmt.Sprintf("%s-%d", n, tries)
		}
		if !used[n] {
			used[n] = true
			return n
		}
	}
}

// ("città", "Å", "丠" end in the bytes 0xA0 / 0x85, which are white space only as code points)
var valueAtoms = []string{"foo", "bar (>= 1.0)", "a:b", "#notacomment", "x,y", "1.0-1", "é", "日本語", "città", "Å", "丠", "http://example.org/?q=1#frag", "<a@b.c>", "-dash", "- -", ".", "..", "tab\there", "=", "k: v"}

func genValueText(t *rt.Tape, label string, dash bool) string {
	n := t.Range(1, 4, label+".n")
	parts := []string{}
	for i := 0; i < n; i++ {
		parts = append(parts, valueAtoms[t.Draw(len(valueAtoms), label)])
	}
	s := strings.Join(parts, " ")
	if !dash {
		s = strings.TrimLeft(s, "-")
		if s == "" {
			s = "x"
		}
	}
	return s
}

// genDoc draws a document model and renders it.  Returns the model, the bytes
// and a list of interesting split offsets (inside CRLF pairs, around buffer
// boundaries).
func genDoc(t *rt.Tape, o docGenOpts, r *rt.Run) ([]mPara, []byte, []int) {
	nl := "\n"
	if o.AllowCRLF && t.Bool(1, 4, "doc.crlf") {
		nl = "\r\n"
		r.Probe("crlf")
	}
	var sb strings.Builder
	var splits []int
	comment := func(where string) {
		if o.Comments && t.Bool(1, 6, "doc.comment") {
			sb.WriteString("#" + genValueText(t, "doc.ctext", true) + nl)
			r.Probe("comment-" + where)
		}
	}
	blank := func(n int) {
		for i := 0; i < n; i++ {
			if nl == "\r\n" {
				splits = append(splits, sb.Len()+1)
			}
			sb.WriteString(nl)
		}
	}
	np := t.Range(o.MinParas, o.MaxParas, "doc.paras")
	blank(t.Weighted([]int{6, 1, 1}, "doc.lead"))
	comment("before-first")
	paras := make([]mPara, 0, np)
	lastWasComment := false
	for pi := 0; pi < np; pi++ {
		p := mPara{}
		used := map[string]bool{}
		nf := t.Range(1, o.MaxFields, "p.fields")
		for fi := 0; fi < nf; fi++ {
			f := mField{Name: genFieldName(t, used)}
			first := ""
			if t.Bool(3, 4, "f.first") {
				first = strings.TrimSpace(genValueText(t, "f.firsttext", o.DashLines))
				if o.AllowLong && t.Bool(1, 24, "f.long") {
					first = first + " " + strings.Repeat("long-"+first+" ", 1+t.Range(400, 3000, "f.longn")/len(first+"long- "))
					first = strings.TrimSpace(first)
					r.Probe("long-line")
				}
			}
			lead := []string{" ", "", "  ", "\t"}[t.Weighted([]int{6, 1, 1, 1}, "f.sep")]
			trail := ""
			if !o.NoTrailingBlanksOnLines {
				trail = []string{"", " ", " \t"}[t.Weighted([]int{6, 1, 1}, "f.trail")]
			}
			if first == "" {
				sb.WriteString(f.Name + ":" + lead + trail + nl)
				r.Probe("empty-first-line")
			} else {
				sb.WriteString(f.Name + ":" + lead + first + trail + nl)
				f.Lines = append(f.Lines, first)
			}
			nc := t.Weighted([]int{5, 2, 2, 1, 1, 1, 1}, "f.conts")
			for ci := 0; ci < nc; ci++ {
				if ci > 0 && o.Comments && t.Bool(1, 8, "f.ccomment") {
					sb.WriteString("#" + genValueText(t, "doc.ctext", true) + nl)
					r.Probe("comment-between-continuations")
				}
				ind := []string{" ", "\t"}[t.Weighted([]int{5, 1}, "c.ind")]
				trail := ""
				if !o.NoTrailingBlanksOnLines {
					trail = []string{"", " ", "\t "}[t.Weighted([]int{6, 1, 1}, "c.trail")]
				}
				if t.Bool(1, 4, "c.empty") {
					sb.WriteString(ind + "." + trail + nl)
					f.Lines = append(f.Lines, "")
					r.Probe("dot-line")
					continue
				}
				if o.ExoticBlanks && t.Bool(1, 12, "c.exoticblank") {
					// a continuation line that holds nothing but white space of the
					// non-ASCII kind (or a form feed / vertical tab): an empty logical line
					ws := []string{"\u00a0", "\f", "\v", "\u0085", "\u2003", "\u3000", " \u00a0 "}[t.Draw(7, "c.exoticblank.kind")]
					sb.WriteString(ind + ws + nl)
					f.Lines = append(f.Lines, "")
					r.Probe("continuation-line-of-exotic-white-space-only")
					continue
				}
				keep := []string{"", " ", "   ", "\t"}[t.Weighted([]int{5, 2, 1, 1}, "c.keep")]
				text := strings.TrimSpace(genValueText(t, "c.text", o.DashLines))
				if text == "." && keep == "" {
					text = ".x"
				}
				sb.WriteString(ind + keep + text + trail + nl)
				f.Lines = append(f.Lines, keep+text)
			}
			if fi < nf-1 {
				comment("between-fields")
			}
			p.Fields = append(p.Fields, f)
		}
		paras = append(paras, p)
		last := pi == np-1
		if !last {
			blank(t.Range(1, 3, "doc.sep"))
			comment("between-paragraphs")
			if t.Bool(1, 10, "doc.sep2") {
				blank(1)
			}
		} else {
			lastWasComment = false
			if o.Comments && t.Bool(1, 10, "doc.lastcomment") {
				sb.WriteString("#" + genValueText(t, "doc.ctext", true) + nl)
				lastWasComment = true
				r.Probe("comment-last")
			}
			blank(t.Weighted([]int{5, 2, 1}, "doc.trail"))
		}
	}
	_ = lastWasComment
	doc := sb.String()
	if t.Bool(1, 4, "doc.nofinalnl") && strings.HasSuffix(doc, nl) {
		// drop exactly the final line terminator
		doc = doc[:len(doc)-len(nl)]
		r.Probe("no-final-newline")
	}
	for _, b := range []int{4095, 4096, 4097} {
		if b < len(doc) {
			splits = append(splits, b)
		}
	}
	return paras, []byte(doc), splits
}

// decodeLines turns a library value into logical lines: "" has no lines;
// otherwise one trailing newline is dropped and the rest split on '\n'.
func decodeLines(v string) []string {
	if v == "" {
		return nil
	}
	v = strings.TrimSuffix(v, "\n")
	return strings.Split(v, "\n")
}

func linesEqual(a, b []string) bool {
	if len(a) != len(b) {
		return false
	}
	for i := range a {
		if a[i] != b[i] {
			return false
		}
	}
	return true
}

// refParse is the independent reference reader.  ok=false means the input is
// not a well-formed document (then no equality is demanded).
func refParse(data []byte) (paras []mPara, ok bool) {
	s := string(data)
	if s == "" {
		return nil, true
	}
	lines := strings.Split(s, "\n")
	if strings.HasSuffix(s, "\n") {
		lines = lines[:len(lines)-1]
	}
	var cur *mPara
	flush := func() {
		if cur != nil && len(cur.Fields) > 0 {
			paras = append(paras, *cur)
		}
		cur = nil
	}
	for _, raw := range lines {
		line := strings.TrimSuffix(raw, "\r")
		if line == "" {
			flush()
			continue
		}
		if strings.HasPrefix(raw, "#") {
			continue
		}
		if strings.TrimFunc(line, unicode.IsSpace) == "" {
			return nil, false // whitespace-only line: not well-formed
		}
		if line[0] == ' ' || line[0] == '\t' {
			if cur == nil || len(cur.Fields) == 0 {
				return nil, false
			}
			text := strings.TrimRightFunc(line[1:], unicode.IsSpace)
			if text == "." {
				text = ""
			}
			f := &cur.Fields[len(cur.Fields)-1]
			f.Lines = append(f.Lines, text)
			continue
		}
		i := strings.Index(line, ":")
		if i < 0 {
			return nil, false
		}
		name := strings.TrimSpace(line[:i])
		if name == "" {
			return nil, false
		}
		if cur == nil {
			cur = &mPara{}
		}
		if cur.get(name) != nil {
			return nil, false
		}
		f := mField{Name: name}
		if first := strings.TrimSpace(line[i+1:]); first != "" {
			f.Lines = append(f.Lines, first)
		}
		cur.Fields = append(cur.Fields, f)
	}
	flush()
	return paras, true
}

func modelEqual(a, b []mPara) bool {
	if len(a) != len(b) {
		return false
	}
	for i := range a {
		if len(a[i].Fields) != len(b[i].Fields) {
			return false
		}
		for j := range a[i].Fields {
			if a[i].Fields[j].Name != b[i].Fields[j].Name || !linesEqual(a[i].Fields[j].Lines, b[i].Fields[j].Lines) {
				return false
			}
		}
	}
	return true
}

// paraInvariant checks the any-input invariant of a returned paragraph; kind
// names which clause broke ("" = holds).
func paraInvariant(p *control.Paragraph) (kind, msg string) {
	seen := map[string]bool{}
	for _, k := range p.Order {
		if seen[k] {
			return "listed-twice", fmt.Sprintf("field %q listed twice in Order %q", k, p.Order)
		}
		seen[k] = true
		if _, ok := p.Values[k]; !ok {
			return "listed-without-value", fmt.Sprintf("field %q listed in Order but has no value", k)
		}
	}
	for k := range p.Values {
		if !seen[k] {
			return "value-not-listed", fmt.Sprintf("value stored for %q which is not listed in Order %q", k, p.Order)
		}
	}
	return "", ""
}

// paraDiff compares a library paragraph with a model paragraph ("" = equal).
func paraDiff(got *control.Paragraph, want *mPara) string {
	if len(got.Order) != len(want.Fields) {
		return fmt.Sprintf("field list: got %q want %d fields %v", got.Order, len(want.Fields), fieldNames(want))
	}
	for i, f := range want.Fields {
		if got.Order[i] != f.Name {
			return fmt.Sprintf("field %d: got name %q want %q", i, got.Order[i], f.Name)
		}
		gl := decodeLines(got.Values[f.Name])
		if !linesEqual(gl, f.Lines) {
			return fmt.Sprintf("field %q: got lines %q (raw %q) want %q", f.Name, clipLines(gl), clip(got.Values[f.Name], 120), clipLines(f.Lines))
		}
	}
	return ""
}

func clipLines(l []string) []string {
	out := []string{}
	for _, s := range l {
		out = append(out, clip(s, 60))
		if len(out) > 8 {
			out = append(out, "…")
			break
		}
	}
	return out
}

func fieldNames(p *mPara) []string {
	out := []string{}
	for _, f := range p.Fields {
		out = append(out, f.Name)
	}
	return out
}
