package main

// C11  Clearsigned control data is accepted only with a valid keyring signature.
//
// Simulated: signer S (a fixture key) -> a store/channel that corrupts ->
// verifier V = NewParagraphReader / NewDecoder(r, &keyring) behind a simulated
// reader.  Faults on the armored bytes: substitution, deletion, insertion and
// truncation at position p; splices of a foreign paragraph before the armor,
// between armor header and text, inside the text, between text and signature
// and after the signature; a second clearsigned block appended; the signature
// block replaced by one made by a non-keyring key or by a keyring key over
// different text.

import (
	"bufio"
	"bytes"
	"encoding/base64"
	"fmt"
	"io"
	"strings"

	"golang.org/x/crypto/openpgp"
	"pault.ag/go/debian/control"
	"verifsim/rt"
	"verifsim/simio"
)

type c11Result struct {
	leak   []control.Paragraph // paragraphs readable from a value returned beside an error
	paras  []control.Paragraph
	err    error
	signer *openpgp.Entity
	// signerEnd: what Signer() says once reading is over (after EOF, or after the error)
	signerEnd    *openpgp.Entity
	signerEndSet bool
	built        bool // the reader/decoder was constructed
	task         *rt.Task
}

func c11Read(r *rt.Run, api string, data []byte, keyring *openpgp.EntityList) c11Result {
	rdSim := simio.NewReader(r, api, data)
	rdSim.SetSplits([]int{1, 5, 14, 15, 16, 34, 35})
	rd := typedReader(r, api, data, rdSim)
	var res c11Result
	res.task = r.Solo("verifier:"+api, func() {
		switch api {
		case "All", "Next":
			pr, err := control.NewParagraphReader(rd, keyring)
			if err != nil {
				res.err = err
				if pr != nil {
					// a value handed out beside the error must not give access to the text
					if ps, e := pr.All(); e == nil && len(ps) > 0 {
						res.leak = ps
					}
				}
				return
			}
			res.built = true
			res.signer = pr.Signer()
			defer func() { res.signerEnd, res.signerEndSet = pr.Signer(), true }()
			if api == "All" {
				res.paras, res.err = pr.All()
				return
			}
			for i := 0; i < 100000; i++ {
				p, err := pr.Next()
				if err == io.EOF {
					return
				}
				if err != nil {
					res.err = err
					return
				}
				res.paras = append(res.paras, *p)
			}
		case "Decoder":
			dec, err := control.NewDecoder(rd, keyring)
			if err != nil {
				res.err = err
				if dec != nil {
					var o rawPara
					if e := dec.Decode(&o); e == nil && len(o.Order) > 0 {
						res.leak = []control.Paragraph{o.Paragraph}
					}
				}
				return
			}
			res.built = true
			res.signer = dec.Signer()
			defer func() { res.signerEnd, res.signerEndSet = dec.Signer(), true }()
			for i := 0; i < 100000; i++ {
				var o rawPara
				err := dec.Decode(&o)
				if err == io.EOF {
					return
				}
				if err != nil {
					res.err = err
					return
				}
				res.paras = append(res.paras, o.Paragraph)
			}
		}
	})
	return res
}

const c11Foreign = "Foreign-Evil: injected-by-attacker\nForeign-Two: injected-too\n"

func mentionsForeign(ps []control.Paragraph) string {
	for _, p := range ps {
		for k, v := range p.Values {
			if strings.Contains(k, "Foreign") || strings.Contains(v, "injected") || strings.Contains(k, "injected") {
				return fmt.Sprintf("%q: %q", k, clip(v, 60))
			}
		}
	}
	return ""
}

// sigBytesDiffer decodes two armor bodies and reports whether the signature
// packet differs beyond its tag and length octets (x/crypto tolerates other
// length values) - a base64 character can change without changing any decoded
// byte (the unused low bits of the last character before the padding).
func sigBytesDiffer(a, b []byte) bool {
	dec := func(x []byte) []byte {
		s := strings.NewReplacer("\n", "", "\r", "").Replace(string(x))
		out, err := base64.StdEncoding.DecodeString(s)
		if err != nil {
			out, _ = base64.RawStdEncoding.DecodeString(strings.TrimRight(s, "="))
		}
		return out
	}
	da, db := dec(a), dec(b)
	if len(da) != len(db) {
		return true
	}
	for i := 3; i < len(da); i++ {
		if da[i] != db[i] {
			return true
		}
	}
	return false
}

func isBlankByte(b byte) bool { return b == ' ' || b == '\t' || b == '\r' || b == '\n' }

const b64chars = "ABCDEFGHIJKLMNOPQRSTUVWXYZabcdefghijklmnopqrstuvwxyz0123456789+/"

func runC11(r *rt.Run, tier string) {
	t := r.T
	loadKeys()
	model, text, _ := genDoc(t, docGenOpts{MinParas: 1, MaxParas: 3, MaxFields: 4, Comments: true, AllowCRLF: false, DashLines: true}, r)
	if t.Bool(1, 4, "c11.dashfield") {
		// a line that starts with '-' forces dash-escaping in the cleartext framework
		text = append([]byte("-Dash-Field: - dashed value\n\n"), text...)
		model = append([]mPara{{Fields: []mField{{Name: "-Dash-Field", Lines: []string{"- dashed value"}}}}}, model...)
		r.Probe("dash-escaped-line")
	}
	if t.Bool(1, 5, "c11.dashmid") {
		// a dash-escaped line that is not the first line of the signed text, its
		// dash followed by a blank (the escaped form is "- - ..."): what is parsed
		// is the text that was signed, dash and blank included
		text = append([]byte("Before-Dash: x\n- Dash Field: - dashed value\nAfter-Dash: y\n\n"), text...)
		model = append([]mPara{{Fields: []mField{{Name: "Before-Dash", Lines: []string{"x"}}, {Name: "- Dash Field", Lines: []string{"- dashed value"}}, {Name: "After-Dash", Lines: []string{"y"}}}}}, model...)
		r.Probe("dash-escaped-line-inside-the-text")
	}
	if t.Bool(1, 5, "c11.crfield") {
		// a carriage return that is not part of a line end is content like any other byte
		text = append([]byte("Cr-Field: first\rsecond\n more\rtext\n\n"), text...)
		model = append([]mPara{{Fields: []mField{{Name: "Cr-Field", Lines: []string{"first\rsecond", "more\rtext"}}}}}, model...)
		r.Probe("carriage-return-inside-a-signed-line")
	}
	nested := false
	if t.Bool(1, 14, "c11.nested") {
		// the signed text itself BEGINS with a complete clearsigned document made by
		// another key of the keyring candidates (a sponsor re-signing an upload
		// as-is): the outer signature is the one that counts, and the signed text -
		// which starts with an armor line, not with a field - is what is parsed
		loadKeys()
		inner := clearsignDoc(pgpKeys[1], []byte("Source: inner\nX-Signed-By: the inner key\n"))
		text = append(append([]byte{}, inner...), text...)
		nested = true
		r.Probe("signed-text-begins-with-another-clearsigned-document")
	}
	if !nested && t.Bool(1, 12, "c11.blanktext") {
		// a signed text without any paragraph: still has to be verified
		text = []byte([]string{"", "\n", "\n\n"}[t.Draw(3, "c11.blankkind")])
		model = nil
		r.Probe("signed-text-without-paragraphs")
	}
	signerIdx := t.Weighted([]int{3, 3, 1}, "c11.signer")
	signer := pgpKeys[signerIdx]
	armored := clearsignDoc(signer, text)
	api := []string{"All", "Next", "Decoder"}[t.Draw(3, "c11.api")]

	// regions of the armored document
	hdrEnd := bytes.Index(armored, []byte("\n\n")) + 2 // first byte of the cleartext
	sigStart := bytes.Index(armored, []byte("\n-----BEGIN PGP SIGNATURE-----")) + 1
	sigBodyStart := sigStart + bytes.Index(armored[sigStart:], []byte("\n\n")) + 2
	crcStart := bytes.LastIndex(armored, []byte("\n=")) + 1
	endLine := bytes.LastIndex(armored, []byte("-----END PGP SIGNATURE-----"))
	if hdrEnd < 2 || sigStart < 1 || crcStart < 1 || endLine < 0 || !(hdrEnd <= sigStart && sigStart < sigBodyStart && sigBodyStart < crcStart && crcStart < endLine) {
		r.Violate("C11/harness-armor-layout", "selfcheck", "cannot locate the regions of the armored document:\n%s", clip(string(armored), 600))
		return
	}

	krKind := 0 // 0 signer only, 1 signer among others, 2 others only, 3 empty, 4 nil
	if signerIdx == 2 {
		krKind = 2
	} else {
		krKind = t.Weighted([]int{4, 4, 0, 0, 1}, "c11.keyring")
	}
	faulty := t.Bool(2, 3, "config.faulty")
	fault := "none"
	mustFail := signerIdx == 2
	if mustFail {
		fault = "outsider-signature"
	}
	either := false
	foreign := false
	data := armored
	if faulty {
		r.Stats["config.faulty"]++
		N := len(armored)
		const nSplice, nOther = 5, 10
		total := 4*N + nSplice + nOther
		fp := faultIndex(r, total, func() int {
			switch t.Weighted([]int{6, 3, 2}, "fault.kind") {
			case 0:
				kind := t.Draw(4, "fault.bytekind")
				var p int
				switch t.Weighted([]int{3, 1, 3, 1, 1}, "fault.region") {
				case 0:
					p = hdrEnd + t.Draw(max(1, sigStart-hdrEnd), "fault.off")
				case 1:
					p = t.Draw(hdrEnd, "fault.off")
				case 2:
					p = sigBodyStart + t.Draw(max(1, crcStart-sigBodyStart), "fault.off")
				case 3:
					p = crcStart + t.Draw(N-crcStart, "fault.off")
				default:
					p = t.Draw(N, "fault.off")
				}
				return kind*N + p
			case 1:
				return 4*N + t.Draw(nSplice, "fault.splice")
			default:
				return 4*N + nSplice + t.Draw(nOther, "fault.other")
			}
		})
		either = true
		switch {
		case fp < 4*N:
			kind, p := fp/N, fp%N
			switch kind {
			case 0: // substitution
				old := armored[p]
				nb := old ^ byte(1+t.Draw(255, "fault.mask"))
				data = append(append(append([]byte{}, armored[:p]...), nb), armored[p+1:]...)
				fault = "substitution"
				inText := p >= hdrEnd && p < sigStart-1
				inB64 := p >= sigBodyStart && p < crcStart
				if inText && !isBlankByte(old) && !isBlankByte(nb) {
					mustFail, either = true, false
					fault = "substitution/text"
					r.Probe("substitution-in-signed-text")
				} else if inB64 && strings.IndexByte(b64chars, old) >= 0 && strings.IndexByte(b64chars, nb) >= 0 && sigBytesDiffer(armored[sigBodyStart:crcStart], data[sigBodyStart:crcStart]) {
					// (must-fail only when decoded signature bytes beyond the packet tag
					// and length octets really differ)
					mustFail, either = true, false
					fault = "substitution/signature-base64"
					r.Probe("substitution-in-signature-armor")
				}
			case 1: // deletion
				data = append(append([]byte{}, armored[:p]...), armored[p+1:]...)
				fault = "deletion"
			case 2: // insertion
				nb := []byte("aZ0 -\n:=\x80\xff\xc3\xa0")[t.Draw(12, "fault.ins")]
				data = append(append(append([]byte{}, armored[:p]...), nb), armored[p:]...)
				fault = "insertion"
				if p >= hdrEnd && p < sigStart && (nb == 'a' || nb == 'Z' || nb == '0' || nb >= 0x80) {
					// a byte that is not white space (an ASCII letter or digit, or a byte
					// >= 0x80 - valid UTF-8 or not) added to the signed text: the text is
					// no longer the text that was signed
					mustFail, either = true, false
					fault = "insertion/non-blank-byte-in-signed-text"
					r.Probe("insertion-in-signed-text")
				}
			case 3: // truncation
				data = armored[:p]
				fault = "truncation"
				if p <= crcStart && p > 0 {
					// anywhere before the checksum line: the signature cannot be complete
					mustFail, either = true, false
					fault = "truncation/before-checksum"
					r.Probe("truncation-inside-armor")
				}
				if p == 0 {
					either = true
				}
			}
			r.Fault("channel." + strings.SplitN(fault, "/", 2)[0])
		case fp < 4*N+nSplice:
			foreign = true
			where := fp - 4*N
			var at int
			switch where {
			case 0:
				at = 0
				fault = "splice/before-armor"
			case 1:
				at = hdrEnd
				fault = "splice/between-header-and-text"
				mustFail, either = true, false
			case 2:
				// at a line boundary inside the text
				at = hdrEnd
				if i := bytes.IndexByte(armored[hdrEnd:sigStart], '\n'); i >= 0 && hdrEnd+i+1 < sigStart {
					at = hdrEnd + i + 1
				}
				fault = "splice/inside-text"
				mustFail, either = true, false
			case 3:
				at = sigStart
				fault = "splice/between-text-and-signature"
				mustFail, either = true, false
			case 4:
				at = N
				fault = "splice/after-signature"
			}
			ins := c11Foreign
			if where == 0 {
				ins += "\n"
			}
			data = append(append(append([]byte{}, armored[:at]...), []byte(ins)...), armored[at:]...)
			r.Fault("channel.splice")
		default:
			switch fp - 4*N - nSplice {
			case 5: // a block that does NOT verify (outsider, foreign text) placed BEFORE the genuine block
				first := clearsignDoc(pgpKeys[3], []byte(c11Foreign))
				data = append(append([]byte{}, first...), armored...)
				foreign = true
				fault = "unverifiable-block-before-genuine-block"
				mustFail, either = true, false
			case 0: // a second clearsigned block appended (signed by an outsider, foreign text)
				second := clearsignDoc(pgpKeys[3], []byte(c11Foreign))
				data = append(append([]byte{}, armored...), second...)
				foreign = true
				fault = "second-block-appended"
			case 1: // signature block replaced by one from a non-keyring key over the same text
				other := clearsignDoc(pgpKeys[3], text)
				os := bytes.Index(other, []byte("\n-----BEGIN PGP SIGNATURE-----")) + 1
				data = append(append([]byte{}, armored[:sigStart]...), other[os:]...)
				fault = "signature-by-outsider"
				mustFail, either = true, false
			case 2: // signature by a keyring key, but over different text
				alt := clearsignDoc(signer, append([]byte("Other: text\n"), text...))
				as := bytes.Index(alt, []byte("\n-----BEGIN PGP SIGNATURE-----")) + 1
				data = append(append([]byte{}, armored[:sigStart]...), alt[as:]...)
				fault = "signature-over-other-text"
				mustFail, either = true, false
			case 9: // two signature packets in the armor, both by the keyring key: one over another text, one over the EMPTY text
				pk := append(detachSignText(signer, []byte("Other: text\n")), detachSignText(signer, nil)...)
				data = append(append([]byte{}, armored[:sigStart]...), armorSignature(pk)...)
				fault = "two-signature-packets-neither-over-this-text"
				mustFail, either = true, false
			case 6, 7, 8: // a complete signature armor whose body is empty: no signature at all
				body := []string{"\n", "\n=twTO\n", "Version: GnuPG v2\n\n"}[fp-4*N-nSplice-6]
				data = append(append([]byte{}, armored[:sigStart]...), []byte("-----BEGIN PGP SIGNATURE-----\n"+body+"-----END PGP SIGNATURE-----\n")...)
				fault = "signature-armor-with-empty-body"
				mustFail, either = true, false
			case 3:
				krKind = 2
				fault = "keyring-without-signer"
				mustFail, either = true, false
			case 4:
				krKind = 3
				fault = "empty-keyring"
				mustFail, either = true, false
			}
			r.Fault("channel." + fault)
		}
		if signerIdx == 2 {
			mustFail, either = true, false
		}
	} else {
		r.Stats["config.faultfree"]++
	}

	if nested && !mustFail {
		// the signed text starts with an armor line, which is not a field: reading
		// may fail when that line is parsed; only soundness is demanded (whoever is
		// named as signer is the OUTER signer, whatever is returned is the signed text)
		either = true
	}
	var keyring *openpgp.EntityList
	switch krKind {
	case 0:
		keyring = &openpgp.EntityList{signer}
	case 1:
		keyring = &openpgp.EntityList{pgpKeys[1-signerIdx%2], signer}
	case 2:
		if signerIdx == 2 {
			keyring = &openpgp.EntityList{pgpKeys[0], pgpKeys[1]}
		} else {
			keyring = &openpgp.EntityList{pgpKeys[(signerIdx+1)%2]}
		}
	case 3:
		keyring = &openpgp.EntityList{}
		if t.Bool(1, 2, "c11.nilslice") {
			var kr openpgp.EntityList // an empty keyring spelled as a nil slice
			keyring = &kr
			r.Probe("empty-keyring-as-nil-slice")
		}
	case 4:
		keyring = nil
		r.Probe("nil-keyring")
	}
	inKeyring := false
	if keyring != nil {
		for _, e := range *keyring {
			if sameEntity(e, signer) {
				inKeyring = true
			}
		}
	}
	r.Event("workload", fault, fmt.Sprintf("api=%s paras=%d signer=%d keyring=%d bytes=%d", api, len(model), signerIdx, krKind, len(data)))

	res := c11Read(r, api, data, keyring)
	key := api + "/" + fault
	if taskTrouble(r, "C11", key, res.task) {
		return
	}
	success := res.built && res.err == nil

	if keyring == nil {
		// checking is off: the only claim is that no signer is reported
		if res.signer != nil {
			r.Violate("C11/signer-reported-without-keyring", key, "keyring is nil but Signer() is non-nil")
		}
		if fault == "none" && !nested && (!success || len(res.paras) != len(model)) {
			r.Violate("C11/genuine-document-rejected", key+"/nil-keyring", "nil keyring: err=%v paragraphs=%d want %d", res.err, len(res.paras), len(model))
		}
		return
	}

	if len(res.leak) > 0 {
		r.Violate("C11/unverified-text-reachable-after-error", key, "construction failed with %q but the value returned beside the error is a working reader that hands out %d paragraph(s) of unverified text", clip(res.err.Error(), 80), len(res.leak))
	}
	// 1. soundness, for every input whatsoever
	if res.signer != nil {
		if !sameEntity(res.signer, signer) || !inKeyring {
			r.Violate("C11/wrong-signer", key, "Signer() reports an entity that is not the signing key in the keyring (inKeyring=%v)", inKeyring)
		}
		if res.err == nil {
			if len(res.paras) != len(model) {
				r.Violate("C11/signed-paragraphs-differ", key, "a signer is reported but %d paragraphs were returned, the signed text has %d", len(res.paras), len(model))
			} else {
				for i := range model {
					if d := paraDiff(&res.paras[i], &model[i]); d != "" {
						r.Violate("C11/signed-paragraphs-differ", key, "a signer is reported but paragraph %d is not the signed text: %s", i, d)
						break
					}
				}
			}
		} else {
			// an error after verification: what was handed out must still be signed text
			for i := range res.paras {
				if i >= len(model) || paraDiff(&res.paras[i], &model[i]) != "" {
					r.Violate("C11/signed-paragraphs-differ", key+"/partial", "a signer is reported and paragraph %d handed out before the error is not the signed text", i)
					break
				}
			}
		}
	}
	// 2. no foreign text ever reaches the caller
	if foreign {
		if m := mentionsForeign(res.paras); m != "" {
			r.Violate("C11/unsigned-text-reached-caller", key, "text from outside the signed block was returned (%s); err=%v signer-reported=%v", m, res.err, res.signer != nil)
		}
	}
	// 3. must-fail classes
	armorIntact := bytes.HasPrefix(data, []byte("-----BEGIN PGP SIGNED MESSAGE-----"))
	if mustFail && success && (len(res.paras) > 0 || (armorIntact && len(model) == 0)) {
		r.Violate("C11/accepted-invalid-signature", key, "reading succeeded (%d paragraphs, signer reported=%v) for fault %s", len(res.paras), res.signer != nil, fault)
	}
	if mustFail && res.signer != nil {
		r.Violate("C11/accepted-invalid-signature", key+"/signer", "a signer is reported for fault %s", fault)
	}
	// 5. fault-free
	if !mustFail && !either {
		if !success || res.signer == nil {
			r.Violate("C11/genuine-document-rejected", key, "document signed by a keyring key: err=%v signer-reported=%v", res.err, res.signer != nil)
		}
	}
	if success && res.signer != nil && res.signerEndSet && !sameEntity(res.signerEnd, res.signer) {
		r.Violate("C11/signer-changes-while-reading", api, "Signer() named the signing key before the paragraphs were read; after reading to the end it says %v", map[bool]string{true: "nobody", false: "somebody else"}[res.signerEnd == nil])
	}
	if res.signer == nil && res.signerEndSet && res.signerEnd != nil {
		r.Violate("C11/signer-changes-while-reading", api+"/appears", "Signer() was nil when the reader was built and names a key after reading")
	}
	if success && res.signer != nil {
		r.Probe("verification-succeeded")
		// multi-step: the very same bytes again, now with keyrings that do not
		// hold the signer - an earlier success must not colour the answer
		var nilSlice openpgp.EntityList
		for _, alt := range []struct {
			name string
			kr   *openpgp.EntityList
		}{{"unrelated", &openpgp.EntityList{pgpKeys[3]}}, {"empty", &openpgp.EntityList{}}, {"empty-nil-slice", &nilSlice}} {
			r2 := c11Read(r, api, data, alt.kr)
			if taskTrouble(r, "C11", key+"/reread", r2.task) {
				return
			}
			if (r2.built && r2.err == nil && len(r2.paras) > 0) || r2.signer != nil {
				r.Violate("C11/accepted-invalid-signature", api+"/reread-with-"+alt.name+"-keyring", "the same bytes were read successfully with the signer's keyring and then AGAIN with a keyring that is %s: err=%v paragraphs=%d signer reported=%v", alt.name, r2.err, len(r2.paras), r2.signer != nil)
			}
		}
		r.Probe("reread-with-other-keyrings")
		// two readers alive at once: a verified reader that has reached EOF must
		// stay at EOF (and must never hand out another reader's text) while a
		// second, unverified reader is created and used
		var leaked string
		var afterErr error
		task := r.Solo("two-readers", func() {
			r1, err := control.NewParagraphReader(simio.NewPlainReader(r, "r1", data), keyring)
			if err != nil {
				afterErr = err
				return
			}
			for {
				if _, err := r1.Next(); err != nil {
					break
				}
			}
			r2, err := control.NewParagraphReader(simio.NewPlainReader(r, "r2", []byte(c11Foreign+"\nForeign-Three: injected-three\n")), nil)
			if err == nil && t.Bool(1, 2, "c11.r2reads") {
				r2.Next()
			}
			for i := 0; i < 3; i++ {
				p, err := r1.Next()
				if err == nil && p != nil {
					leaked = mentionsForeign([]control.Paragraph{*p})
					if leaked == "" {
						leaked = fmt.Sprintf("a paragraph after EOF: %v", p.Order)
					}
					return
				}
				afterErr = err
			}
			if r2 != nil && err == nil {
				r2.Next()
			}
		})
		if taskTrouble(r, "C11", key+"/two-readers", task) {
			return
		}
		_ = afterErr
		if leaked != "" {
			r.Violate("C11/unsigned-text-reached-caller", "two-readers/verified-reader-after-EOF", "a verified reader (Signer() non-nil) that had reached EOF returned %s after a second reader was created", leaked)
		}
		r.Probe("two-readers-alive")
		// the caller hands in its own bufio.Reader and re-uses it for the next
		// file once the verified reader exists (the whole input was consumed by
		// then): the verified reader must keep serving the signed text
		var viaCaller []control.Paragraph
		var vcErr error
		task = r.Solo("callers-bufio", func() {
			br := bufio.NewReaderSize(simio.NewPlainReader(r, "caller", data), 4096+t.Draw(2, "c11.brsize")*4096)
			pr, err := control.NewParagraphReader(br, keyring)
			if err != nil {
				vcErr = err
				return
			}
			br.Reset(simio.NewPlainReader(r, "next-file", []byte(c11Foreign)))
			viaCaller, vcErr = pr.All()
		})
		if taskTrouble(r, "C11", key+"/callers-bufio", task) {
			return
		}
		if m := mentionsForeign(viaCaller); m != "" {
			r.Violate("C11/unsigned-text-reached-caller", "callers-bufio-reused", "the caller re-used its own bufio.Reader for the next file after the verified reader was built; the verified reader (Signer() non-nil) then returned %s", m)
		} else if vcErr == nil && len(viaCaller) != len(model) {
			r.Violate("C11/signed-paragraphs-differ", "callers-bufio-reused", "verified reader returned %d paragraphs, the signed text has %d, after the caller re-used its bufio.Reader", len(viaCaller), len(model))
		}
		r.Probe("callers-bufio-reused")
		// the stream's end is not final: after the verified reader was built (the
		// whole input, up to the end it reported, was consumed and checked) a
		// foreign paragraph is appended - it is not part of what was verified
		var viaGrown []control.Paragraph
		var vgErr error
		task = r.Solo("grown-stream", func() {
			src := simio.NewPlainReader(r, "growing", data)
			src.GrowAfterEOF([]byte("\n" + c11Foreign))
			pr, err := control.NewParagraphReader(src, keyring)
			if err != nil {
				vgErr = err
				return
			}
			viaGrown, vgErr = pr.All()
			if vgErr == nil {
				if p, err := pr.Next(); err == nil && p != nil {
					viaGrown = append(viaGrown, *p)
				}
			}
		})
		if taskTrouble(r, "C11", key+"/grown-stream", task) {
			return
		}
		if m := mentionsForeign(viaGrown); m != "" {
			r.Violate("C11/unsigned-text-reached-caller", "stream-grew-after-verification", "text appended to the stream after the signed document had been read to its (then) end and verified was returned by the verified reader: %s", m)
		} else if vgErr == nil && len(viaGrown) != len(model) {
			r.Violate("C11/signed-paragraphs-differ", "stream-grew-after-verification", "verified reader returned %d paragraphs, the signed text has %d", len(viaGrown), len(model))
		}
		r.Probe("stream-grew-after-verification")
	}

	// 4. unsigned input never has a signer (the plain text of the same document)
	if !nested && t.Bool(1, 8, "c11.unsigned") {
		ures := c11Read(r, api, text, keyring)
		if ures.signer != nil {
			r.Violate("C11/signer-reported-for-unsigned-input", api, "unsigned input, yet Signer() is non-nil")
		}
		r.Probe("unsigned-input")
	}
}

func init() {
	register(&Prop{
		ID: "C11", Level: "fault_enumeration", Variant: "N", Design: "DESIGN.md §5 C11",
		Rule: "Each run draws a document (C07 generator, 1..3 paragraphs, comments, trailing blanks, optionally a dash-escaped first line and a dash-escaped line inside the text whose dash is followed by a blank), clearsigns it with one of three fixture keys (two keyring candidates, one outsider) and picks a keyring composition (signer only, signer among others, others only, empty, nil) and an API (All, Next loop, Decoder). The fault-injecting two thirds apply one fault to the armored bytes: substitution, deletion, insertion or truncation at byte p; a foreign paragraph spliced before the armor, between armor header and text, inside the text, between text and signature, or after the signature; a second clearsigned block appended; the signature replaced by one from a non-keyring key or by a keyring key over other text; keyring without the signer; empty keyring. The thorough tier sweeps every byte position x {substitute, delete, insert, truncate} and every splice/replacement variant of each sampled document.",
		Run:  runC11, Sweep: true, SweepQuick: 4,
		QuickRuns: 30000, QuickSecs: 45, ThoroughRuns: 3000, ThoroughSecs: 1200,
		Components: map[string]interface{}{
			"real": []string{"pault.ag/go/debian/control (NewParagraphReader, NewDecoder, decodeClearsig, Signer)", "golang.org/x/crypto/openpgp, clearsign, armor (also used by the harness to make the signatures)"},
			"stub": []string{"simio.Reader (delivery schedule incl. splits inside the 15-byte peek)"},
		},
		Assumptions: []string{"x/crypto/openpgp both signs and verifies: a bug common to both directions is invisible", "must-fail is only demanded where the canonical signed text or the decoded signature provably changed (non-blank text byte to another non-blank byte; base64 character to another base64 character; truncation before the checksum line; replaced signature; keyring without signer); all other faults are checked for soundness only", "fixture keys; signing with a fixed time is byte-deterministic"},
	})
	propProbes["C11"] = []string{"signed-text-begins-with-another-clearsigned-document", "insertion-in-signed-text", "stream-grew-after-verification", "carriage-return-inside-a-signed-line", "callers-bufio-reused", "signed-text-without-paragraphs", "two-readers-alive", "reread-with-other-keyrings", "empty-keyring-as-nil-slice", "verification-succeeded", "dash-escaped-line", "dash-escaped-line-inside-the-text", "substitution-in-signed-text", "substitution-in-signature-armor", "truncation-inside-armor", "nil-keyring", "unsigned-input"}
}
