package main

// C19  Build ordering respects build-dependencies between the given sources.
//
// OrderDSCForBuild itself is a pure function; what the simulation contributes
// is stated plainly in DESIGN.md: the .dsc files are rendered to the simulated
// file system, arrive there in a tape-chosen order (which becomes the input
// order), are read back through ParseDscFile over chunked reads, and the call
// runs in the instrumented variant under tape-chosen map orders.  The deciding
// oracle is an independent graph model.

import (
	"fmt"
	"sort"
	"strings"

	"syscall"

	"pault.ag/go/debian/control"
	"pault.ag/go/debian/dependency"
	"verifsim/rt"
	"verifsim/simos"
)

type c19Src struct {
	Name string
	Bins []string
	Doc  mDSC
}

// firstApplicable mirrors the statement: per relation, the first alternative
// that is not a substvar and is admitted for the (concrete) build architecture.
func firstApplicable(rel mRel, arch string) (string, bool) {
	for _, p := range rel {
		if p.Substvar {
			continue
		}
		if len(p.Archs) == 0 {
			return p.Name, true
		}
		listed := false
		for _, a := range p.Archs {
			if a.Text == arch {
				listed = true
			}
		}
		if listed != p.ArchNot {
			return p.Name, true
		}
	}
	return "", false
}

func runC19(r *rt.Run, tier string) {
	t := r.T
	r.EnableMapOrder(true)
	maxN := 8
	if tier == "thorough" {
		maxN = 12
	}
	n := t.Range(1, maxN, "c19.n")
	srcs := make([]*c19Src, n)
	var allBins []string
	for i := range srcs {
		srcs[i] = &c19Src{Name: fmt.Sprintf("src%c%d", 'a'+i, i)}
	}
	takenBin := map[string]bool{}
	for i, s := range srcs {
		for j, nb := 0, t.Range(1, 4, "c19.nbins"); j < nb; j++ {
			name := fmt.Sprintf("%s-bin%d", s.Name, j)
			// binary package names live in their own name space: a binary may be
			// called like its own source (very common) or like ANOTHER source of the
			// set that does not build a binary of its own name
			switch t.Weighted([]int{6, 1, 1}, "c19.binname") {
			case 1:
				name = s.Name
			case 2:
				name = srcs[(i+1+t.Draw(n, "c19.binname.other"))%n].Name
				if name != s.Name {
					r.Probe("binary-named-like-another-source")
				}
			}
			if takenBin[name] {
				name = fmt.Sprintf("%s-bin%d", s.Name, j)
			}
			takenBin[name] = true
			s.Bins = append(s.Bins, name)
		}
		allBins = append(allBins, s.Bins...)
	}
	external := []string{"debhelper", "libc6-dev", "dh-python"}
	// names of sources of the set that nobody builds as a binary are external too
	for _, s := range srcs {
		if !takenBin[s.Name] && t.Bool(1, 3, "c19.srcname-as-external") {
			external = append(external, s.Name)
			r.Probe("dependency-named-like-a-source-nobody-builds")
		}
	}
	buildArch := archStock[t.Draw(3, "c19.arch")] // concrete: amd64, i386, arm64
	for i, s := range srcs {
		// bias towards binaries of earlier sources so that many graphs are acyclic
		pool := append([]string{}, external...)
		for k := 0; k < i; k++ {
			pool = append(pool, srcs[k].Bins...)
		}
		if t.Bool(1, 4, "c19.anydep") {
			pool = append(pool, allBins...) // may create cycles and self-dependencies
		}
		s.Doc = genDSC(t, "c19.dsc", s.Name, s.Bins, depOpts{Names: pool, Substvars: true, ConcreteArchs: true, MaxRels: 3})
	}
	// the model graph
	binSrc := map[string]int{}
	for i, s := range srcs {
		for _, b := range s.Bins {
			binSrc[b] = i
		}
	}
	edgesFor := func(arch string, probe bool) map[[2]int]bool {
		edges := map[[2]int]bool{} // from -> to (from must be built before to)
		for i, s := range srcs {
			for _, d := range []mDep{s.Doc.BD, s.Doc.BDA, s.Doc.BDI} {
				for _, rel := range d {
					if name, ok := firstApplicable(rel, arch); ok {
						if from, ok := binSrc[name]; ok {
							edges[[2]int{from, i}] = true
							if probe && len(rel) > 1 {
								r.Probe("edge-through-alternative")
							}
						}
					}
				}
			}
		}
		return edges
	}
	edges := edgesFor(buildArch.Text, true)
	cyclic := hasCycle(n, edges)
	if cyclic {
		r.Probe("cyclic-graph")
	} else {
		r.Probe("acyclic-graph")
	}
	for e := range edges {
		if len(srcs[e[0]].Bins) > 1 {
			r.Probe("multi-binary-source-has-dependents")
		}
	}

	// the .dsc files arrive on the simulated file system in a tape-chosen order
	fs := simos.New(r)
	arrival := t.Perm(n, "c19.arrival")
	for i, j := range arrival {
		if i != j {
			r.NonTrivial = true
		}
	}
	r.Event("arrival", fmt.Sprint(arrival), "")
	fileOps := []int{} // per file in arrival order: open, read, read (EOF), close - and one more EOF read when the last line has no newline
	for _, i := range arrival {
		fileOps = append(fileOps, 4)
		text := srcs[i].Doc.render()
		// a quarter of the files end in their build-dependency fields, and the
		// last line of the file has no newline (the end of file arrives in the
		// middle of the dependency line, or of its last continuation line)
		if t.Bool(1, 4, "c19.depslast") {
			text = depsLastNoNewline(text)
			fileOps[len(fileOps)-1] = 5
			r.Stats["config.deps-last-no-newline"]++
		}
		fs.PutQuiet(fmt.Sprintf("/queue/%s.dsc", srcs[i].Name), []byte(text))
	}
	simos.Install(fs)
	defer simos.Install(nil)
	r.Event("workload", "order", fmt.Sprintf("sources=%d edges=%d cyclic=%v arch=%s", n, len(edges), cyclic, buildArch.Text))

	// one of the files may fail while it is read: the first read call hands out
	// only half of the file (legal), the next one fails with EIO.  Parsing that
	// file must then fail - a source with half of its build-dependencies must
	// not enter the ordering as if it were complete.
	victim := -1
	small := true
	for _, sc := range srcs {
		if len(sc.Doc.render()) >= 4000 {
			small = false
		}
	}
	if small && t.Bool(1, 5, "config.faulty") {
		victim = t.Draw(n, "fault.victim")
		fs.Subject = "parse"
		base := 0
		for _, k := range fileOps[:victim] {
			base += k
		}
		fs.Plan = map[int]simos.Fault{base + 2: {Kind: "short"}, base + 3: {Kind: "err", Errno: syscall.EIO}}
		r.Stats["config.faulty"]++
	}
	var dscs []control.DSC
	var perr error
	task := r.Solo("parse", func() {
		for _, i := range arrival {
			d, err := control.ParseDscFile(fmt.Sprintf("/queue/%s.dsc", srcs[i].Name))
			if err != nil {
				perr = fmt.Errorf("%s: %v", srcs[i].Name, err)
				return
			}
			dscs = append(dscs, *d)
		}
	})
	if taskTrouble(r, "C19", "parse", task) {
		return
	}
	if victim >= 0 {
		fired, halfRead := false, "-"
		for _, op := range fs.History {
			// (only a failing open or read obliges the parser; a failing close of a
			// file that was read completely may be ignored)
			// and only a failure that follows a read which handed out part of
			// the same file: a failed first read that the parser repeats with
			// success loses nothing)
			if op.Fault == "short" && op.Op == "read" && op.N > 0 {
				halfRead = op.Path
			}
			if op.Fault == "err" && op.Op == "read" && op.Path == halfRead {
				fired = true
			}
		}
		if fired && perr == nil {
			r.Violate("C19/read-error-swallowed", "ParseDscFile", "reading %s.dsc failed with EIO after half of the file, yet all %d files were parsed without error (a source with part of its fields would enter the ordering)", srcs[arrival[victim]].Name, n)
		}
		if fired {
			r.Probe("dsc-read-failed-half-way")
		}
		return
	}
	if perr != nil {
		r.Violate("C19/parse-error", "ParseDscFile", "%v", perr)
		return
	}
	arch, _ := dependency.ParseArch(buildArch.Text)
	var firstOut string
	for rep := 0; rep < 3; rep++ {
		var out []control.DSC
		var err error
		task := r.Solo("order", func() { out, err = control.OrderDSCForBuild(dscs, *arch) })
		if taskTrouble(r, "C19", "OrderDSCForBuild", task) {
			return
		}
		desc := "error"
		if err == nil {
			names := []string{}
			for _, d := range out {
				names = append(names, d.Source)
			}
			desc = strings.Join(names, " ")
		}
		if rep == 0 {
			firstOut = desc
		} else if desc != firstOut {
			r.Violate("C19/nondeterministic-outcome", "repeat", "the same input gave %q and then %q", firstOut, desc)
		}
		if cyclic {
			if err == nil {
				r.Violate("C19/cycle-not-reported", "order", "the build-dependency graph has a cycle (%s) but an order was returned: %s", edgeList(srcs, edges), desc)
			}
			continue
		}
		if err != nil {
			r.Violate("C19/error-on-acyclic-graph", "order", "acyclic graph (%s) but OrderDSCForBuild failed: %v", edgeList(srcs, edges), err)
			continue
		}
		// permutation of the input
		got := []string{}
		pos := map[string]int{}
		for i, d := range out {
			got = append(got, d.Source)
			pos[d.Source] = i
		}
		want := []string{}
		for _, s := range srcs {
			want = append(want, s.Name)
		}
		sort.Strings(got)
		sort.Strings(want)
		if strings.Join(got, " ") != strings.Join(want, " ") {
			r.Violate("C19/not-a-permutation", "order", "output %q is not a permutation of the input %q", desc, strings.Join(want, " "))
			continue
		}
		for e := range edges {
			if pos[srcs[e[0]].Name] > pos[srcs[e[1]].Name] {
				r.Violate("C19/dependency-built-too-late", "order", "%s build-depends on a binary of %s (first applicable alternative on %s) but comes before it: %s\nedges: %s", srcs[e[1]].Name, srcs[e[0]].Name, buildArch.Text, desc, edgeList(srcs, edges))
				break
			}
		}
	}
	// the same parsed objects ordered for ANOTHER architecture, then for the
	// first one again: an ordering must not leave anything behind in its input
	other := archStock[(archIndex(buildArch.Text)+1+t.Draw(2, "c19.arch2"))%3]
	arch2, _ := dependency.ParseArch(other.Text)
	var out2 []control.DSC
	var err2 error
	task2 := r.Solo("order-other-arch", func() { out2, err2 = control.OrderDSCForBuild(dscs, *arch2) })
	if taskTrouble(r, "C19", "OrderDSCForBuild/other-arch", task2) {
		return
	}
	c19Check(r, "order/second-architecture-on-same-objects", srcs, edgesFor(other.Text, false), out2, err2, other.Text)
	var out3 []control.DSC
	var err3 error
	task3 := r.Solo("order-first-arch-again", func() { out3, err3 = control.OrderDSCForBuild(dscs, *arch) })
	if taskTrouble(r, "C19", "OrderDSCForBuild/again", task3) {
		return
	}
	c19Check(r, "order/first-architecture-again", srcs, edges, out3, err3, buildArch.Text)
	r.Probe("ordered-for-two-architectures")

	// several callers order the same parsed sources at the same time, for the
	// same and for another architecture, interleaved at the instrumented loop
	// heads and function entries: each gets the answer of its own architecture
	if t.Bool(1, 3, "c19.concurrent") {
		sites := map[int]bool{}
		sub := t.Sub("c19.sites")
		for i := 0; i < rt.TotalSites(); i++ {
			if sub.Intn(3) == 0 {
				sites[i] = true
			}
		}
		r.SetYieldSites(sites)
		r.Sticky = t.Draw(3, "sched.sticky")
		type job struct {
			arch *dependency.Arch
			text string
			out  []control.DSC
			err  error
			task *rt.Task
		}
		jobs := []*job{{arch: arch, text: buildArch.Text}, {arch: arch2, text: other.Text}, {arch: arch, text: buildArch.Text}}
		for i, j := range jobs[:2+t.Draw(2, "c19.concurrent-n")] {
			j := j
			j.task = r.Go(fmt.Sprintf("O%d", i), func() { j.out, j.err = control.OrderDSCForBuild(dscs, *j.arch) })
		}
		r.Sched()
		r.SetYieldSites(nil)
		r.Probe("ordered-by-concurrent-callers")
		for _, j := range jobs {
			if j.task == nil {
				continue
			}
			if taskTrouble(r, "C19", "OrderDSCForBuild/concurrent", j.task) {
				return
			}
			c19Check(r, "order/concurrent-callers-on-same-objects", srcs, edgesFor(j.text, false), j.out, j.err, j.text)
		}
	}
}

func archIndex(text string) int {
	for i, a := range archStock {
		if a.Text == text {
			return i
		}
	}
	return 0
}

// c19Check compares one OrderDSCForBuild outcome with the model graph.
func c19Check(r *rt.Run, key string, srcs []*c19Src, edges map[[2]int]bool, out []control.DSC, err error, arch string) {
	cyclic := hasCycle(len(srcs), edges)
	if cyclic {
		if err == nil {
			r.Violate("C19/cycle-not-reported", key, "[%s] the graph has a cycle (%s) but an order was returned", arch, edgeList(srcs, edges))
		}
		return
	}
	if err != nil {
		r.Violate("C19/error-on-acyclic-graph", key, "[%s] acyclic graph (%s) but OrderDSCForBuild failed: %v", arch, edgeList(srcs, edges), err)
		return
	}
	pos := map[string]int{}
	for i, d := range out {
		pos[d.Source] = i
	}
	if len(pos) != len(srcs) || len(out) != len(srcs) {
		r.Violate("C19/not-a-permutation", key, "[%s] %d sources in, %d out", arch, len(srcs), len(out))
		return
	}
	for e := range edges {
		if pos[srcs[e[0]].Name] > pos[srcs[e[1]].Name] {
			r.Violate("C19/dependency-built-too-late", key, "[%s] %s build-depends on a binary of %s but comes before it; edges: %s", arch, srcs[e[1]].Name, srcs[e[0]].Name, edgeList(srcs, edges))
			return
		}
	}
}

func edgeList(srcs []*c19Src, edges map[[2]int]bool) string {
	out := []string{}
	for e := range edges {
		out = append(out, srcs[e[0]].Name+"->"+srcs[e[1]].Name)
	}
	sort.Strings(out)
	return strings.Join(out, " ")
}

func hasCycle(n int, edges map[[2]int]bool) bool {
	adj := make([][]int, n)
	for e := range edges {
		if e[0] == e[1] {
			return true
		}
		adj[e[0]] = append(adj[e[0]], e[1])
	}
	state := make([]int, n)
	var visit func(int) bool
	visit = func(u int) bool {
		state[u] = 1
		for _, v := range adj[u] {
			if state[v] == 1 || (state[v] == 0 && visit(v)) {
				return true
			}
		}
		state[u] = 2
		return false
	}
	for i := 0; i < n; i++ {
		if state[i] == 0 && visit(i) {
			return true
		}
	}
	return false
}

func init() {
	register(&Prop{
		ID: "C19", Level: "exploration", Variant: "I", Design: "DESIGN.md §5 C19",
		Rule:      "Each run draws 1..12 sources with 1..4 binaries each (Binary field single-line or folded), build-dependencies over Build-Depends, Build-Depends-Arch and Build-Depends-Indep with alternatives, [arch]/[!arch] restrictions, substvars, external packages, self-dependencies and cycles, renders them as .dsc files (a quarter of them ending in their Build-Depends* fields without a final newline) onto the simulated file system in a tape-chosen arrival order, parses them back with ParseDscFile and calls OrderDSCForBuild three times for a concrete build architecture under tape-chosen map orders. An independent graph model (first applicable non-substvar alternative per relation; binary->source map) decides: error iff the graph has a cycle, otherwise a permutation with every edge forward, identical on every repetition. Binaries may be named like their own or like another source; source names nobody builds appear as external dependencies; the same parsed objects are then ordered for a second architecture, for the first again, and (a third of the runs) by 2..3 concurrent callers.",
		Run:       runC19,
		QuickRuns: 250000, QuickSecs: 40, ThoroughRuns: 2_000_000, ThoroughSecs: 900,
		Components: map[string]interface{}{
			"real_instrumented": []string{"pault.ag/go/debian/control (OrderDSCForBuild, ParseDscFile, DSC struct tags)", "pault.ag/go/debian/dependency (Parse, GetPossibilities, ArchSet.Matches)"},
			"real":              []string{"pault.ag/go/topsort"},
			"stub":              []string{"verifsim/simos (the .dsc files live on the simulated file system)"},
		},
		Assumptions: []string{"claimed weakly: the function under test is pure; simulation owns only the arrival order, the file reads and the map-order seam. The deciding oracle is a graph model over generated inputs", "architecture restrictions use concrete architectures only (wildcard matching belongs to the not-applicable property C06)", "every binary is built by exactly one of the given sources"},
	})
	propProbes["C19"] = []string{"dsc-read-failed-half-way", "ordered-by-concurrent-callers", "binary-named-like-another-source", "dependency-named-like-a-source-nobody-builds", "ordered-for-two-architectures", "cyclic-graph", "acyclic-graph", "edge-through-alternative", "multi-binary-source-has-dependents"}
}

// depsLastNoNewline moves the Build-Depends* fields (with their continuation
// lines) to the end of a one-paragraph document and drops the final newline.
func depsLastNoNewline(text string) string {
	var head, deps []string
	inDep := false
	for _, line := range strings.SplitAfter(text, "\n") {
		if line == "" {
			continue
		}
		if line[0] != ' ' && line[0] != '\t' {
			inDep = strings.HasPrefix(line, "Build-Depends")
		}
		if inDep {
			deps = append(deps, line)
		} else {
			head = append(head, line)
		}
	}
	return strings.TrimSuffix(strings.Join(head, "")+strings.Join(deps, ""), "\n")
}
