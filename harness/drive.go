package main

import (
	"flag"
	"fmt"
	"os"
	"os/exec"
	"path/filepath"
	"sort"
	"strconv"
	"strings"
	"sync"
	"time"

	"verifsim/rt"
)

type batchOut struct {
	seed uint64
	outs []*WorkOut
}

func spawnWorkers(exe string, p *Prop, tier string, seed uint64, W, from, to int, deadline int64, sweep int, hashKeep int, known, dir, tag string) ([]*WorkOut, error) {
	var wg sync.WaitGroup
	outs := make([]*WorkOut, W)
	errs := make([]error, W)
	for w := 0; w < W; w++ {
		wg.Add(1)
		go func(w int) {
			defer wg.Done()
			of := filepath.Join(dir, fmt.Sprintf("%s-%s-w%d.json", p.ID, tag, w))
			args := []string{"work", "-prop", p.ID, "-tier", tier, "-seed", strconv.FormatUint(seed, 10),
				"-w", strconv.Itoa(w), "-W", strconv.Itoa(W), "-from", strconv.Itoa(from), "-to", strconv.Itoa(to),
				"-deadline", strconv.FormatInt(deadline, 10), "-out", of, "-known", known,
				"-hashkeep", strconv.Itoa(hashKeep), "-sweep", strconv.Itoa(sweep)}
			cmd := exec.Command(exe, args...)
			cmd.Env = append(os.Environ(), "GOMAXPROCS=1", "GOTRACEBACK=single")
			b, err := cmd.CombinedOutput()
			if err != nil {
				tail := string(b)
				if len(tail) > 3000 {
					tail = tail[len(tail)-3000:]
				}
				errs[w] = fmt.Errorf("worker %d (%s): %v\n%s", w, strings.Join(args, " "), err, tail)
				return
			}
			var o WorkOut
			if err := readJSON(of, &o); err != nil {
				errs[w] = err
				return
			}
			os.Remove(of)
			outs[w] = &o
		}(w)
	}
	wg.Wait()
	for _, e := range errs {
		if e != nil {
			return nil, e
		}
	}
	return outs, nil
}

func driveMain(fs *flag.FlagSet, args []string) {
	propID := fs.String("prop", "", "")
	tier := fs.String("tier", "quick", "")
	seed := fs.Uint64("seed", 1, "")
	W := fs.Int("workers", 16, "")
	known := fs.String("known", "", "")
	evidence := fs.String("evidence", "", "")
	replays := fs.String("replays", "", "")
	runsOv := fs.Int("runs", 0, "")
	secsOv := fs.Int("secs", 0, "")
	scratch := fs.String("scratch", os.TempDir(), "")
	merge := fs.String("merge", "", "evidence fragment (JSON object) to merge into coverage, written by the check script")
	extraViol := fs.String("extraviolation", "", "replay file of a violation found by a side check (e.g. the C18 race part); reported like any other")
	fs.Parse(args)
	p := registry[*propID]
	if p == nil {
		die2("unknown property %q", *propID)
	}
	start := time.Now()
	exe, err := os.Executable()
	if err != nil {
		die2("%v", err)
	}
	runs, secs := p.QuickRuns, p.QuickSecs
	batches := 1
	sweepN := p.SweepQuick
	if *tier == "thorough" {
		runs, secs = p.ThoroughRuns, p.ThoroughSecs
		batches = 4
		sweepN = -1
	}
	if *runsOv > 0 {
		runs = *runsOv
	}
	if *secsOv > 0 {
		secs = *secsOv
	}
	if secs == 0 {
		secs = 60
	}
	findings := loadFindings(*known)
	const hashKeep = 48

	var all []*WorkOut
	seeds := []uint64{}
	maxIdx := 0
	for b := 0; b < batches; b++ {
		s := *seed
		if b > 0 {
			s = rt.SplitMix64(*seed + uint64(b))
		}
		seeds = append(seeds, s)
		deadline := time.Now().Unix() + int64(secs/batches)
		outs, err := spawnWorkers(exe, p, *tier, s, *W, 0, runs/batches, deadline, sweepN, hashKeep, *known, *scratch, fmt.Sprintf("b%d", b))
		if err != nil {
			die2("%v", err)
		}
		all = append(all, outs...)
		// determinism mini-check: the first indices again, one process, different split
		if b == 0 {
			chk, err := spawnWorkers(exe, p, *tier, s, 3, 0, hashKeep, 0, 0, hashKeep, *known, *scratch, "det")
			if err != nil {
				die2("determinism re-run: %v", err)
			}
			ref := map[string]string{}
			for _, o := range outs {
				for k, v := range o.Hashes {
					ref[k] = v
				}
			}
			nchk := 0
			for _, o := range chk {
				for k, v := range o.Hashes {
					if rv, ok := ref[k]; ok {
						nchk++
						if rv != v && detMismatch == "" {
							detMismatch = fmt.Sprintf("determinism check failed: run %s of %s has trace %s in one process and %s in another", k, p.ID, rv, v)
						}
					}
				}
			}
			detChecked = nchk
		}
		for _, o := range outs {
			if o.MaxIdx > maxIdx {
				maxIdx = o.MaxIdx
			}
		}
	}

	// cold-start runs: one run per fresh process
	cold := p.ColdQuick
	if *tier == "thorough" {
		cold = p.ColdThorough
	}
	coldDone := 0
	if cold > 0 {
		var fv []string
		for k, v := range p.ColdForce {
			fv = append(fv, fmt.Sprintf("%s=%d", k, v))
		}
		sort.Strings(fv)
		const coldBase = 1 << 28
		var mu sync.Mutex
		var wg sync.WaitGroup
		next := 0
		var coldErr error
		for w := 0; w < *W; w++ {
			wg.Add(1)
			go func(w int) {
				defer wg.Done()
				for {
					mu.Lock()
					j := next
					next++
					mu.Unlock()
					if j >= cold {
						return
					}
					of := filepath.Join(*scratch, fmt.Sprintf("%s-cold-%d.json", p.ID, j))
					args := []string{"work", "-prop", p.ID, "-tier", *tier, "-seed", strconv.FormatUint(*seed, 10), "-w", "0", "-W", "1",
						"-from", strconv.Itoa(coldBase + j), "-to", strconv.Itoa(coldBase + j + 1), "-out", of, "-known", *known, "-sweep", "0", "-force", strings.Join(fv, ","), "-cold"}
					cmd := exec.Command(exe, args...)
					cmd.Env = append(os.Environ(), "GOMAXPROCS=1", "GOTRACEBACK=single")
					if b, err := cmd.CombinedOutput(); err != nil {
						mu.Lock()
						coldErr = fmt.Errorf("cold-start run %d: %v\n%s", j, err, b)
						mu.Unlock()
						return
					}
					var o WorkOut
					if err := readJSON(of, &o); err == nil {
						mu.Lock()
						all = append(all, &o)
						coldDone++
						mu.Unlock()
					}
					os.Remove(of)
				}
			}(w)
		}
		wg.Wait()
		if coldErr != nil {
			die2("%v", coldErr)
		}
	}

	// merge
	tot := &WorkOut{Faults: map[string]int{}, Probes: map[string]int{}, Stats: map[string]int64{}, Known: map[int]*KnownHit{}}
	shapes := map[string]bool{}
	var unknown []ViolRec
	for _, o := range all {
		tot.Runs += o.Runs
		tot.BaseRuns += o.BaseRuns
		tot.SweepRuns += o.SweepRuns
		tot.SweptWorkloads += o.SweptWorkloads
		tot.NonTrivial += o.NonTrivial
		tot.Steps += o.Steps
		for _, s := range o.Shapes {
			shapes[s] = true
		}
		for k, v := range o.Faults {
			tot.Faults[k] += v
		}
		for k, v := range o.Probes {
			tot.Probes[k] += v
		}
		for k, v := range o.Stats {
			tot.Stats[k] += v
		}
		tot.Samples = append(tot.Samples, o.Samples...)
		unknown = append(unknown, o.Unknown...)
		for ki, h := range o.Known {
			t := tot.Known[ki]
			if t == nil {
				tot.Known[ki] = &KnownHit{Count: h.Count, Example: h.Example}
			} else {
				t.Count += h.Count
			}
		}
		if len(o.Instr) > 0 {
			tot.Instr = o.Instr
		}
	}
	if len(tot.Samples) > 4 {
		tot.Samples = tot.Samples[:4]
	}
	for k, v := range tot.Stats {
		if strings.HasPrefix(k, "runs abandoned") && v > 0 {
			fmt.Fprintf(os.Stderr, "note: %d worker(s) stopped early: %s\n", v, k)
		}
	}
	if coldDone > 0 {
		tot.Stats["cold-start-runs (one fresh process each)"] = int64(coldDone)
	}

	// violations: shrink + verify + report
	exit := 0
	reported := []string{}
	sort.Slice(unknown, func(i, j int) bool {
		if unknown[i].Idx != unknown[j].Idx {
			return unknown[i].Idx < unknown[j].Idx
		}
		return unknown[i].K < unknown[j].K
	})
	// Group the candidates by class|key.  A candidate is only reported when its
	// ORIGINAL tape reproduces in a fresh process (a violation that needs state
	// left behind by earlier runs of the same worker process is not replayable:
	// the next candidate of the group is tried instead).
	groups := map[string][]ViolRec{}
	var groupOrder []string
	for _, u := range unknown {
		v := u.Violations[0]
		ck := v.Class + "|" + v.Key
		if _, ok := groups[ck]; !ok {
			groupOrder = append(groupOrder, ck)
		}
		groups[ck] = append(groups[ck], u)
	}
	freshReplay := func(file string) (bool, string) {
		cmd := exec.Command(exe, "replay", "-quiet", "-file", file)
		cmd.Env = append(os.Environ(), "GOMAXPROCS=1")
		b, err := cmd.CombinedOutput()
		ee, isExit := err.(*exec.ExitError)
		if err == nil || !isExit || ee.ExitCode() != 1 {
			return false, ""
		}
		for _, l := range strings.Split(string(b), "\n") {
			if strings.HasPrefix(l, "REPLAY ") {
				return true, l
			}
		}
		return true, ""
	}
	notSelfContained := 0
	nreported := 0
	for _, ck := range groupOrder {
		if nreported >= 5 {
			break
		}
		for ci, u := range groups[ck] {
			v := u.Violations[0]
			os.MkdirAll(filepath.Join(*replays, p.ID), 0o755)
			raw := filepath.Join(*scratch, fmt.Sprintf("%s-raw-%d-%d.json", p.ID, nreported, ci))
			name := fmt.Sprintf("%s-s%d-r%d", p.ID, *seed, u.Idx)
			if u.K >= 0 {
				name += fmt.Sprintf("-k%d", u.K)
			}
			name += "-" + sanitize(strings.TrimPrefix(v.Class, p.ID+"/")) + "-" + sanitize(v.Key)
			final := filepath.Join(*replays, p.ID, name+".json")
			rf := ReplayFile{Cold: u.Idx >= 1<<28, Property: p.ID, Tier: *tier, BaseSeed: *seed, RunIndex: u.Idx, SweepK: u.K, Class: v.Class, Key: v.Key, Msg: v.Msg, Tape: u.Tape, OrigTapeLen: len(u.Tape)}
			if err := writeJSON(raw, &rf); err != nil {
				die2("%v", err)
			}
			if ok, _ := freshReplay(raw); !ok {
				// Not a function of its own tape: try the run together with what
				// the same worker process executed before it (history replay).
				if hf := historyReplay(exe, &rf, u.Before, raw, final, freshReplay); hf {
					os.Remove(raw)
					var fin ReplayFile
					readJSON(final, &fin)
					fmt.Printf("violated: %s key=%s (run %d preceded by %d earlier run(s) in the same process; not reproducible from its own tape alone)\n  %s\n", fin.Class, fin.Key, u.Idx, len(fin.Prelude), strings.ReplaceAll(fin.Msg, "\n", "\n  "))
					fmt.Printf("VIOLATION property=%s replay=%s\n", p.ID, final)
					reported = append(reported, final)
					nreported++
					exit = 1
					break
				}
				notSelfContained++
				os.Remove(raw)
				continue
			}
			cmd := exec.Command(exe, "shrink", "-in", raw, "-out", final, "-secs", "45")
			cmd.Env = append(os.Environ(), "GOMAXPROCS=1")
			shrunk := true
			if b, err := cmd.CombinedOutput(); err != nil {
				fmt.Fprintf(os.Stderr, "note: shrinking %s failed (%v): reporting the original tape\n%s", v.Class, err, b)
				shrunk = false
			}
			if shrunk {
				ok1, h1 := freshReplay(final)
				ok2, h2 := freshReplay(final)
				if !ok1 || !ok2 || h1 != h2 {
					// the minimised tape only failed inside the shrinker's process
					// (the code under test keeps state between calls): fall back
					shrunk = false
				}
			}
			if !shrunk {
				cmd := exec.Command(exe, "shrink", "-in", raw, "-out", final, "-secs", "0", "-noshrink")
				cmd.Env = append(os.Environ(), "GOMAXPROCS=1")
				if b, err := cmd.CombinedOutput(); err != nil {
					die2("writing the replay file failed: %v\n%s", err, b)
				}
				ok1, h1 := freshReplay(final)
				ok2, h2 := freshReplay(final)
				if !ok1 || !ok2 || h1 != h2 {
					notSelfContained++
					os.Remove(raw)
					os.Remove(final)
					continue
				}
			}
			os.Remove(raw)
			var fin ReplayFile
			readJSON(final, &fin)
			fmt.Printf("violated: %s key=%s (run %d, tape %d -> %d choices)\n  %s\n", fin.Class, fin.Key, u.Idx, fin.OrigTapeLen, len(fin.Tape), strings.ReplaceAll(fin.Msg, "\n", "\n  "))
			fmt.Printf("VIOLATION property=%s replay=%s\n", p.ID, final)
			reported = append(reported, final)
			nreported++
			exit = 1
			break
		}
	}
	if len(unknown) > 0 && exit == 0 {
		die2("%d violating runs were seen in the worker processes but none reproduces from its tape in a fresh process: the outcome depends on what ran earlier in the same process (state kept between calls by the code under test, or harness nondeterminism). First: %s key=%s: %s", len(unknown), unknown[0].Violations[0].Class, unknown[0].Violations[0].Key, unknown[0].Violations[0].Msg)
	}
	if notSelfContained > 0 {
		fmt.Fprintf(os.Stderr, "note: %d violating runs did not reproduce from their tape in a fresh process and were not reported\n", notSelfContained)
	}

	if *extraViol != "" {
		if _, err := os.Stat(*extraViol); err == nil {
			fmt.Printf("VIOLATION property=%s replay=%s\n", p.ID, *extraViol)
			reported = append(reported, *extraViol)
			exit = 1
		}
	}

	if detMismatch != "" {
		// A run that is not a pure function of its tape.  When violations were
		// found they are reported (state leaking between runs inside the code
		// under test shows up as both); without any violation this is harness
		// trouble, never a VIOLATION.
		if exit == 0 {
			die2("%s", detMismatch)
		}
		fmt.Fprintf(os.Stderr, "note: %s (reported together with the violations above; process-global state in the code under test makes runs depend on what ran before them)\n", detMismatch)
	}

	// known findings: one line per listed finding
	knownOut := []map[string]interface{}{}
	for i, f := range findings {
		if f.Property != p.ID || f.Status != "known" {
			continue
		}
		n := 0
		if h := tot.Known[i]; h != nil {
			n = h.Count
		}
		fmt.Printf("KNOWN-FINDING: property=%s %s [class=%s key=%s; observed %d times in this run]\n", p.ID, f.What, f.Class, f.Key, n)
		knownOut = append(knownOut, map[string]interface{}{"class": f.Class, "key": f.Key, "what": f.What, "observed": n})
	}

	wall := time.Since(start).Seconds()
	// zero probes
	zero := []string{}
	for _, name := range propProbes[p.ID] {
		if tot.Probes[name] == 0 {
			zero = append(zero, name)
		}
	}
	assumptions := append([]string{}, p.Assumptions...)
	for _, z := range zero {
		msg := "probe never hit in this run: " + z
		assumptions = append(assumptions, msg)
		fmt.Fprintf(os.Stderr, "warning: %s %s\n", p.ID, msg)
	}
	distinct := len(shapes)
	cov := map[string]interface{}{
		"evaluations":         tot.Runs,
		"distinct_nontrivial": distinct,
		"rule":                p.Rule + " A run is non-trivial when it injected >=1 fault, interleaved >=2 tasks or used a non-default delivery/disk profile; distinct = distinct trace-shape hashes (sequence of task, operation kind, outcome class with data elided) among non-trivial runs.",
		"samples":             tot.Samples,
		"nontrivial_runs":     tot.NonTrivial,
		"runs_per_hour":       int(float64(tot.Runs) / wall * 3600),
		"seeds":               map[string]interface{}{"base_seeds": seeds, "run_index_range": []int{0, maxIdx}, "base_runs": tot.BaseRuns, "sweep_runs": tot.SweepRuns, "workloads_swept_completely": tot.SweptWorkloads},
		"logical_steps":       tot.Steps,
		"simulated_time":      "n/a - the code under test has no clock, timer or deadline; logical_steps (seam calls + instrumented loop heads) is the only notion of time",
		"faults_fired":        tot.Faults,
		"probes":              tot.Probes,
		"counters":            tot.Stats,
		"determinism_check":   map[string]interface{}{"runs_reexecuted_in_other_processes": detChecked, "mismatch": detMismatch},
		"components":          p.Components,
		"workers":             *W,
		"exhaustive":          false,
	}
	if len(tot.Instr) > 0 {
		ins := []map[string]interface{}{}
		for _, i := range tot.Instr {
			ins = append(ins, map[string]interface{}{"package": i.Package, "step_sites": i.StepSites, "map_ranges_ordered": i.MapRanges, "files_os_to_simos": i.OsFiles})
		}
		cov["instrumentation"] = ins
	}
	if *merge != "" {
		var extra map[string]interface{}
		if err := readJSON(*merge, &extra); err == nil {
			for k, v := range extra {
				cov[k] = v
			}
		}
	}
	ev := map[string]interface{}{
		"property_id":    p.ID,
		"tier":           *tier,
		"seed":           *seed,
		"level":          p.Level,
		"coverage":       cov,
		"assumptions":    assumptions,
		"wall_s":         wall,
		"violations":     len(reported),
		"known_findings": knownOut,
		"replays":        reported,
	}
	if *evidence != "" {
		os.MkdirAll(filepath.Dir(*evidence), 0o755)
		if err := writeJSON(*evidence, ev); err != nil {
			die2("%v", err)
		}
	}
	fmt.Printf("%s %s: %d runs (%d base + %d sweep), %d non-trivial, %d distinct shapes, %.0f runs/h, faults=%v, %d violations, %.1fs\n",
		p.ID, *tier, tot.Runs, tot.BaseRuns, tot.SweepRuns, tot.NonTrivial, distinct, float64(tot.Runs)/wall*3600, tot.Faults, len(reported), wall)
	os.Exit(exit)
}

var detChecked int
var detMismatch string

// propProbes lists, per property, the probes that a healthy run must hit.
var propProbes = map[string][]string{}

func sanitize(s string) string {
	b := []byte(s)
	for i, c := range b {
		if !(c >= 'a' && c <= 'z' || c >= 'A' && c <= 'Z' || c >= '0' && c <= '9' || c == '-') {
			b[i] = '_'
		}
	}
	if len(b) > 40 {
		b = b[:40]
	}
	return string(b)
}

func selftestMain(fs *flag.FlagSet, args []string) {
	fs.Parse(args)
	fmt.Println("selftest: see ./check selftest")
}

// historyReplay searches for a sequence "earlier runs of the same worker
// process, then the violating run" that reproduces the violation in a fresh
// process, minimises the number of earlier runs, writes a self-contained replay
// file (all tapes recorded) to final and confirms it twice.
func historyReplay(exe string, rf *ReplayFile, before [][2]int, raw, final string, freshReplay func(string) (bool, string)) bool {
	if len(before) == 0 {
		return false
	}
	try := func(pre [][2]int) bool {
		c := *rf
		c.Prelude = nil
		for _, b := range pre {
			c.Prelude = append(c.Prelude, PreludeRun{RunIndex: b[0], SweepK: b[1]})
		}
		if err := writeJSON(raw, &c); err != nil {
			return false
		}
		ok, _ := freshReplay(raw)
		return ok
	}
	var pre [][2]int
	found := false
	for m := 1; ; m *= 2 {
		if m > len(before) {
			m = len(before)
		}
		pre = before[len(before)-m:]
		if try(pre) {
			found = true
			break
		}
		if m == len(before) {
			break
		}
	}
	if !found {
		return false
	}
	// minimise: drop chunks of earlier runs while the violation still reproduces
	deadline := time.Now().Add(40 * time.Second)
	for chunk := (len(pre) + 1) / 2; chunk >= 1 && len(pre) > 1; chunk /= 2 {
		for i := 0; i+chunk <= len(pre) && len(pre) > 1 && time.Now().Before(deadline); {
			cand := append(append([][2]int{}, pre[:i]...), pre[i+chunk:]...)
			if len(cand) > 0 && try(cand) {
				pre = cand
			} else {
				i += chunk
			}
		}
	}
	// record the tapes of the earlier runs so that the file stands on its own
	c := *rf
	c.Prelude = nil
	for _, b := range pre {
		c.Prelude = append(c.Prelude, PreludeRun{RunIndex: b[0], SweepK: b[1]})
	}
	if err := writeJSON(raw, &c); err != nil {
		return false
	}
	cmd := exec.Command(exe, "replay", "-quiet", "-file", raw, "-recordprelude", final)
	cmd.Env = append(os.Environ(), "GOMAXPROCS=1")
	cmd.CombinedOutput()
	ok1, h1 := freshReplay(final)
	ok2, h2 := freshReplay(final)
	if !ok1 || !ok2 || h1 != h2 {
		os.Remove(final)
		return false
	}
	return true
}
