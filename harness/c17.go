package main

// C17  Changelog parsing returns every entry faithfully, or an error.
//
// Simulated: changelog author -> simulated stream -> changelog.Parse and a
// ParseOne loop.  Faults: EOF at an arbitrary instant (truncation = crash of
// the writer / torn file), EIO at byte k, and malformed header/trailer/date.

import (
	"bufio"
	"fmt"
	"io"
	"strings"
	"syscall"
	"time"

	"pault.ag/go/debian/changelog"
	"verifsim/rt"
	"verifsim/simio"
	"verifsim/simos"
)

type clEntry struct {
	Source             string
	Version            mVersion
	Dists              []string
	Opts               [][2]string
	Body               string // verbatim text between header and trailer (all lines incl. newlines)
	Who                string
	Y, Mo, D, H, Mi, S int
	ZoneSec            int
	// offsets in the rendered document
	start, trailerEnd, nlEnd int
}

func (e *clEntry) when() time.Time {
	return time.Date(e.Y, time.Month(e.Mo), e.D, e.H, e.Mi, e.S, 0, time.FixedZone("", e.ZoneSec))
}

var clDists = []string{"unstable", "experimental", "stable-security", "bookworm-backports", "UNRELEASED", "trusty"}
var clOptKeys = []string{"urgency", "binary-only", "x-foo", "closes"}
var clOptVals = []string{"low", "medium", "high", "yes", "emergency", "1", "bug=767172", "a=b=c"}
var monthNames = []string{"Jan", "Feb", "Mar", "Apr", "May", "Jun", "Jul", "Aug", "Sep", "Oct", "Nov", "Dec"}
var dayNames = []string{"Sun", "Mon", "Tue", "Wed", "Thu", "Fri", "Sat"}

func genChangelog(t *rt.Tape, tier string) ([]*clEntry, []byte) {
	return genChangelogR(t, tier, rt.NewRun(rt.NewTape(0)))
}

// clAllowMany: only the main workload of C17 draws changelogs with hundreds or
// thousands of entries (its step budget is scaled accordingly).
var clAllowMany bool

func genChangelogR(t *rt.Tape, tier string, r *rt.Run) ([]*clEntry, []byte) {
	maxEntries := 4
	if tier == "thorough" {
		maxEntries = 8
	}
	n := t.Range(1, maxEntries, "cl.entries")
	if r != nil && clAllowMany && t.Bool(1, 80, "cl.many") {
		n = 100 + t.Draw(500, "cl.many.n")
		if t.Bool(1, 5, "cl.many.thousands") {
			// a long-lived package: thousands of entries (past 4096 and other round numbers)
			n = 4000 + t.Draw(6000, "cl.many.n")
		}
		r.Probe("changelog-with-hundreds-of-entries")
	}
	var sb strings.Builder
	for i := 0; i < t.Weighted([]int{6, 1, 1}, "cl.leadblank"); i++ {
		sb.WriteString("\n")
	}
	entries := []*clEntry{}
	for i := 0; i < n; i++ {
		e := &clEntry{}
		e.Source = genPkgName(t, "cl.src")
		e.Version = genVersion(t, "cl.ver")
		for j, nd := 0, t.Range(1, 3, "cl.ndist"); j < nd; j++ {
			e.Dists = append(e.Dists, clDists[t.Draw(len(clDists), "cl.dist")])
		}
		used := map[string]bool{}
		for j, no := 0, t.Range(1, 4, "cl.nopt"); j < no; j++ {
			k := clOptKeys[t.Draw(len(clOptKeys), "cl.optk")]
			if used[k] {
				continue
			}
			used[k] = true
			e.Opts = append(e.Opts, [2]string{k, clOptVals[t.Draw(len(clOptVals), "cl.optv")]})
		}
		// body
		var body strings.Builder
		body.WriteString("\n")
		for j, nl := 0, t.Range(1, 5, "cl.nbody"); j < nl; j++ {
			switch t.Weighted([]int{50, 20, 10, 10, 10, 2, 3}, "cl.bodykind") {
			case 5: // a change line longer than any default bufio buffer
				w := genWords(t, 2, 6, "cl.w")
				body.WriteString("  * " + strings.Repeat(w+" ", 1+(4200+t.Draw(3000, "cl.longlen"))/(len(w)+1)) + "end\n")
				r.Probe("change-line-longer-than-4096-bytes")
			case 6: // a change line that ends in CR LF (kept verbatim)
				body.WriteString("  * " + genWords(t, 1, 4, "cl.w") + "\r\n")
				r.Probe("change-line-with-carriage-return")
			case 0:
				body.WriteString("  * " + genWords(t, 1, 6, "cl.w") + "\n")
			case 1:
				body.WriteString("    " + genWords(t, 1, 6, "cl.w") + "\n")
			case 2:
				body.WriteString("\n")
			case 3:
				body.WriteString("  * see foo -- bar  baz\n")
			case 4:
				body.WriteString("  [ " + genPerson(t, "cl.bp") + " ]\n")
			}
		}
		body.WriteString("\n")
		e.Body = body.String()
		e.Who = genPerson(t, "cl.who")
		if t.Bool(1, 8, "cl.who.dashes") {
			// the trailer's separator characters inside the maintainer part itself
			e.Who = "Jean--Luc Picard <jean--luc@example.org>"
		}
		e.Y = t.Range(1995, 2038, "cl.y")
		e.Mo = t.Range(1, 12, "cl.mo")
		e.D = t.Range(1, 28, "cl.d")
		e.H, e.Mi, e.S = t.Range(0, 23, "cl.h"), t.Range(0, 59, "cl.mi"), t.Range(0, 59, "cl.s")
		zh := t.Range(0, 26, "cl.zh") - 12
		zm := []int{0, 30, 45}[t.Weighted([]int{6, 1, 1}, "cl.zm")]
		if t.Bool(1, 3, "cl.commonzone") {
			// the offsets that also occur as the simulated process zone
			zh, zm = []int{0, 1, -5, 5}[t.Draw(4, "cl.commonzonev")], 0
			if zh == 5 {
				zm = 30
			}
		}
		e.ZoneSec = zh*3600 + zm*60
		if zh < 0 {
			e.ZoneSec = zh*3600 - zm*60
		}

		e.start = sb.Len()
		opts := []string{}
		for _, o := range e.Opts {
			opts = append(opts, o[0]+"="+o[1])
		}
		fmt.Fprintf(&sb, "%s (%s) %s; %s\n", e.Source, e.Version.Text, strings.Join(e.Dists, " "), strings.Join(opts, ", "))
		sb.WriteString(e.Body)
		sign, zs := '+', e.ZoneSec
		if zs < 0 {
			sign, zs = '-', -zs
		}
		wd := dayNames[int(e.when().Weekday())]
		fmt.Fprintf(&sb, " -- %s  %s, %02d %s %04d %02d:%02d:%02d %c%02d%02d", e.Who, wd, e.D, monthNames[e.Mo-1], e.Y, e.H, e.Mi, e.S, sign, zs/3600, zs%3600/60)
		e.trailerEnd = sb.Len()
		last := i == n-1
		if last && t.Bool(1, 4, "cl.nofinalnl") {
			e.nlEnd = sb.Len() // no newline at all
		} else {
			sb.WriteString("\n")
			e.nlEnd = sb.Len()
			nb := t.Range(1, 3, "cl.sep")
			if last {
				nb = t.Range(0, 2, "cl.trail")
			}
			for j := 0; j < nb; j++ {
				sb.WriteString("\n")
			}
		}
		entries = append(entries, e)
	}
	return entries, []byte(sb.String())
}

func clCompare(r *rt.Run, api string, got *changelog.ChangelogEntry, want *clEntry, idx int) {
	bad := func(field, g, w string) {
		r.Violate("C17/entry-mismatch", api+"/"+field, "entry %d field %s: got %q want %q", idx, field, clip(g, 200), clip(w, 200))
	}
	if got.Source != want.Source {
		bad("Source", got.Source, want.Source)
	}
	if !verEq(got.Version, want.Version) {
		bad("Version", fmt.Sprintf("%+v", got.Version), want.Version.Text)
	}
	if got.Target != strings.Join(want.Dists, " ") {
		bad("Target", got.Target, strings.Join(want.Dists, " "))
	}
	if len(got.Arguments) != len(want.Opts) {
		bad("Arguments.len", fmt.Sprint(got.Arguments), fmt.Sprint(want.Opts))
	}
	for _, o := range want.Opts {
		if v, ok := got.Arguments[o[0]]; !ok || v != o[1] {
			bad("Arguments", fmt.Sprint(got.Arguments), fmt.Sprint(want.Opts))
		}
	}
	if got.Changelog != want.Body {
		bad("Changelog", got.Changelog, want.Body)
	}
	if got.ChangedBy != want.Who {
		bad("ChangedBy", got.ChangedBy, want.Who)
	}
	if !got.When.Equal(want.when()) {
		bad("When.instant", got.When.String(), want.when().String())
	}
	if _, off := got.When.Zone(); off != want.ZoneSec {
		bad("When.zone", fmt.Sprint(off), fmt.Sprint(want.ZoneSec))
	}
}

// clParseOneLoop drives ParseOne the way a caller would.
// clBufSize is the size of the caller's bufio.Reader for the ParseOne loop (0 = default).
var clBufSize int

func clParseOneLoop(rd io.Reader) ([]changelog.ChangelogEntry, error) {
	br := bufio.NewReader(rd)
	if clBufSize > 0 {
		br = bufio.NewReaderSize(rd, clBufSize)
	}
	out := []changelog.ChangelogEntry{}
	for i := 0; i < 100000; i++ {
		e, err := changelog.ParseOne(br)
		if err == io.EOF {
			return out, nil
		}
		if err != nil {
			return out, err
		}
		out = append(out, *e)
	}
	return out, fmt.Errorf("ParseOne loop did not end")
}

// faultIndex selects one fault position out of total.  Mode 3 ("direct") is
// what the thorough sweep forces through tape overrides; otherwise the
// property's biased sampler places the fault inside in-flight structure.
func faultIndex(r *rt.Run, total int, biased func() int) int {
	r.SweepLen = total
	if r.T.Draw(4, "fault.mode") == 3 {
		return r.T.Draw(total, "faultpos")
	}
	v := biased()
	if v < 0 {
		v = 0
	}
	if v >= total {
		v = total - 1
	}
	return v
}

var clMalKinds = []string{"no-open-paren", "no-close-paren", "bad-month", "no-zone", "trailer-dash", "single-space"}

// clMalform damages entry e of the document in one of the ways the statement
// names (malformed header, trailer or date).
func clMalform(doc []byte, e *clEntry, kind string) []byte {
	seg := string(doc[e.start:e.trailerEnd])
	hdrEnd := strings.Index(seg, "\n")
	hdr, rest := seg[:hdrEnd], seg[hdrEnd:]
	ti := strings.LastIndex(rest, "\n -- ")
	body, trailer := rest[:ti+1], rest[ti+1:]
	switch kind {
	case "no-open-paren":
		hdr = strings.Replace(hdr, "(", "", 1)
	case "no-close-paren":
		hdr = strings.Replace(hdr, ")", "", 1)
	case "bad-month":
		trailer = strings.Replace(trailer, " "+monthNames[e.Mo-1]+" ", " Foo ", 1)
	case "no-zone":
		trailer = trailer[:len(trailer)-6]
	case "trailer-dash":
		trailer = " - " + trailer[4:]
	case "single-space":
		i := strings.LastIndex(trailer, ">  ")
		trailer = trailer[:i+1] + " " + trailer[i+3:]
	}
	out := append([]byte{}, doc[:e.start]...)
	out = append(out, hdr+body+trailer...)
	out = append(out, doc[e.trailerEnd:]...)
	return out
}

func runC17(r *rt.Run, tier string) {
	t := r.T
	if t.Draw(8, "c17.part") == 7 {
		r.Stats["part.concurrent"]++
		c17Concurrent(r, tier)
		return
	}
	clAllowMany = true
	entries, doc := genChangelogR(t, tier, r)
	clAllowMany = false
	if len(doc) > 20000 {
		// the default budget is meant for changelogs of a few entries
		r.StepBudget += 100 * int64(len(doc))
	}
	faulty := t.Bool(1, 2, "config.faulty")
	api := "Parse"
	clBufSize = 0
	viaFile := false
	if k := t.Weighted([]int{8, 4, 2, 1}, "cl.api"); k >= 2 {
		// the file entry points, on the simulated file system
		api = []string{"ParseFile", "ParseFileOne"}[k-2]
		viaFile = true
		r.Probe("via-file-entry-point")
	} else if k == 1 {
		api = "ParseOne"
		// the caller's buffered reader may be smaller than bufio's default
		clBufSize = []int{0, 16, 64, 300, 4095}[t.Weighted([]int{3, 1, 1, 1, 1}, "cl.bufsize")]
		if clBufSize > 0 {
			r.Probe("ParseOne-on-a-small-bufio-reader")
		}
	}
	// the process time zone is part of the environment: a tape-chosen zone is
	// installed as time.Local for the run (entries whose offset equals the local
	// offset are where Go substitutes the Local location)
	zones := []int{0, 3600, -18000, 19800}
	zoff := zones[t.Draw(len(zones), "env.localzone")]
	saved := time.Local
	time.Local = time.FixedZone("SIMLOCAL", zoff)
	defer func() { time.Local = saved }()
	r.Stats[fmt.Sprintf("env.localzone.%d", zoff)]++
	L := len(doc) + 1
	nMal := len(entries) * len(clMalKinds)
	kind, pos := "none", -1
	data := doc
	malEntry := -1
	if faulty {
		fp := faultIndex(r, 2*L+nMal, func() int {
			which := t.Weighted([]int{5, 2, 2}, "fault.kind")
			if which == 2 {
				return 2*L + t.Draw(nMal, "fault.mal")
			}
			e := entries[t.Draw(len(entries), "fault.entry")]
			var p int
			switch t.Weighted([]int{2, 3, 3, 2, 1}, "fault.where") {
			case 0: // inside the header
				p = e.start + t.Draw(max(1, min(40, e.trailerEnd-e.start)), "fault.off")
			case 1: // inside the trailer (name, date, zone)
				p = e.trailerEnd - t.Draw(min(45, e.trailerEnd-e.start), "fault.off")
			case 2: // exactly around the end of the trailer / its newline
				p = e.trailerEnd - 1 + t.Draw(3, "fault.off")
			case 3: // anywhere in the entry
				p = e.start + t.Draw(e.nlEnd-e.start+1, "fault.off")
			default:
				p = t.Draw(L, "fault.off")
			}
			if p < 0 {
				p = 0
			}
			if p >= L {
				p = L - 1
			}
			if which == 1 {
				p += L
			}
			return p
		})
		switch {
		case fp < L:
			kind, pos = "truncate", fp
		case fp < 2*L:
			kind, pos = "eio", fp-L
		default:
			m := fp - 2*L
			malEntry = m / len(clMalKinds)
			kind = "malformed:" + clMalKinds[m%len(clMalKinds)]
			data = clMalform(doc, entries[malEntry], clMalKinds[m%len(clMalKinds)])
			r.Fault("input.malformed")
		}
		r.Stats["config.faulty"]++
	} else {
		r.Stats["config.faultfree"]++
	}
	r.Event("workload", api, fmt.Sprintf("entries=%d bytes=%d fault=%s pos=%d", len(entries), len(doc), kind, pos))

	rd := simio.NewReader(r, "changelog", data)
	switch kind {
	case "truncate":
		rd.TruncateAt(pos)
		if pos >= len(doc) {
			kind = "none" // cut after the last byte is no cut
		}
	case "eio":
		rd.FailAt(pos)
	}

	var got []changelog.ChangelogEntry
	var err error
	var fsys *simos.FS
	if viaFile {
		// the same document as a file: a truncation is a torn file, an EIO is a
		// failing open or read call of the parser (position scaled to the calls made)
		fsys = simos.New(r)
		onDisk := data
		if kind == "truncate" {
			onDisk = data[:pos]
		}
		fsys.PutQuiet("/src/pkg/debian/changelog", onDisk)
		if kind == "eio" {
			fsys.Subject = "parser"
			fsys.Plan = map[int]simos.Fault{1 + (pos*(2+len(data)/4096))/L: {Kind: "err", Errno: syscall.EIO}}
		}
		simos.Install(fsys)
		defer simos.Install(nil)
	}
	var rdT io.Reader = rd
	if kind == "none" && !viaFile {
		rdT = typedReader(r, "changelog", data, rd)
	}
	task := r.Solo("parser", func() {
		switch api {
		case "Parse":
			var g changelog.ChangelogEntries
			g, err = changelog.Parse(rdT)
			got = g
		case "ParseFile":
			var g changelog.ChangelogEntries
			g, err = changelog.ParseFile("/src/pkg/debian/changelog")
			got = g
		case "ParseFileOne":
			var e *changelog.ChangelogEntry
			e, err = changelog.ParseFileOne("/src/pkg/debian/changelog")
			if e != nil {
				got = []changelog.ChangelogEntry{*e}
			}
			if e == nil && err == nil {
				err = fmt.Errorf("ParseFileOne returned (nil, nil)")
				r.Violate("C17/nil-entry-without-error", api, "ParseFileOne returned neither an entry nor an error")
			}
		default:
			got, err = clParseOneLoop(rdT)
		}
	})
	if viaFile {
		// every file the parser opened is closed again when it returns
		opens, closes, fired := 0, 0, ""
		for _, op := range fsys.History {
			switch {
			case op.Op == "open" && op.Err == "":
				opens++
			case op.Op == "close":
				closes++
			}
			if op.Fault != "" {
				fired = op.Op
			}
		}
		if opens != closes && task.Panic == nil && !task.Budget {
			r.Violate("C17/file-left-open", api, "%d successful opens, %d closes when the call returned", opens, closes)
		}
		if kind == "eio" {
			if fired == "open" || fired == "read" {
				r.Probe("file-call-failed:" + fired)
			} else {
				if fired == "close" && err != nil {
					return // reporting a failed close is not wrong
				}
				kind = "eio-not-hit" // the failing call index was never reached (or was the close)
			}
		}
	}
	if api == "ParseFileOne" {
		c17One(r, entries, doc, kind, pos, got, err, task)
		return
	}
	if task.Panic != nil {
		r.Violate("C17/panic", api, "panic: %v\n%s", task.Panic, trimStack(task.PanicStack))
		return
	}
	if task.Budget {
		r.Violate("C17/no-termination", api, "step budget exhausted")
		return
	}
	outcome := "ok"
	if err != nil {
		outcome = "error"
	}
	r.Event("result", outcome, fmt.Sprintf("n=%d", len(got)))

	n := len(entries)
	switch {
	case kind == "none":
		// The complete document.  A last entry without final newline is the
		// statement's "lacks the final newline": all entries or an error.
		noNL := entries[n-1].nlEnd == entries[n-1].trailerEnd
		if noNL {
			r.Probe("no-final-newline")
		}
		if err != nil {
			if !noNL {
				r.Violate("C17/error-on-wellformed", api, "well-formed changelog (%d entries) rejected: %v", n, err)
			}
			return
		}
		if len(got) != n {
			cls := "C17/entry-count"
			if len(got) < n {
				cls = "C17/silently-shortened"
			}
			r.Violate(cls, api+"/complete"+map[bool]string{true: "-nofinalnl", false: ""}[noNL], "got %d entries, want %d (nil error)", len(got), n)
		}
		for i := 0; i < len(got) && i < n; i++ {
			clCompare(r, api, &got[i], entries[i], i)
		}
		if len(got) == n && t.Bool(1, 3, "c17.edit-and-reparse") {
			// the caller edits what it was given (entries are plain values it owns),
			// then the same text is parsed again: the second result is again what
			// the text says, and sibling entries were not touched by the edit
			r.Probe("result-edited-then-parsed-again")
			k := t.Draw(n, "c17.edit.entry")
			if got[k].Arguments == nil {
				got[k].Arguments = map[string]string{}
			}
			got[k].Arguments["urgency"] = "edited-by-caller"
			got[k].Arguments["x-added"] = "1"
			got[k].Source, got[k].Target, got[k].Changelog = "edited", "edited", "edited"
			for i := 0; i < n; i++ {
				if i != k {
					clCompare(r, api+"/sibling-after-edit", &got[i], entries[i], i)
				}
			}
			var again changelog.ChangelogEntries
			var aerr error
			task2 := r.Solo("parser-again", func() { again, aerr = changelog.Parse(simio.NewPlainReader(r, "changelog-again", doc)) })
			if taskTrouble(r, "C17", "Parse/again", task2) {
				return
			}
			if aerr != nil || len(again) != n {
				if !noNL || aerr == nil {
					r.Violate("C17/entry-count", "Parse/again", "second parse of the same text: %d entries, err=%v (first: %d, nil)", len(again), aerr, n)
				}
				return
			}
			for i := range again {
				clCompare(r, "Parse/again-after-edit", &again[i], entries[i], i)
			}
		}
	case kind == "truncate":
		m := 0
		for m < n && entries[m].nlEnd <= pos {
			m++
		}
		after := 0
		if m > 0 {
			after = entries[m-1].nlEnd
		}
		dangling := strings.TrimSpace(string(doc[after:pos])) != ""
		if !dangling {
			r.Probe("truncate-on-entry-boundary")
			if err != nil {
				r.Violate("C17/error-on-wellformed", api+"/prefix", "prefix of %d complete entries rejected: %v", m, err)
				return
			}
			if len(got) != m {
				r.Violate("C17/entry-count", api+"/prefix", "cut at %d: got %d entries, want %d", pos, len(got), m)
			}
			for i := 0; i < len(got) && i < m; i++ {
				clCompare(r, api, &got[i], entries[i], i)
			}
			return
		}
		r.Probe("truncate-inside-entry")
		if m < n && pos >= entries[m].trailerEnd {
			r.Probe("truncate-only-final-newline-missing")
		}
		if err != nil {
			return // an error is always acceptable for input that ends inside an entry
		}
		complete := m < n && pos >= entries[m].trailerEnd
		if complete && len(got) == m+1 {
			for i := 0; i <= m; i++ {
				clCompare(r, api, &got[i], entries[i], i)
			}
			return
		}
		if len(got) <= m {
			r.Violate("C17/silently-shortened", api+"/truncated", "input cut at byte %d inside entry %d: nil error and only %d entries (entry %d silently dropped)", pos, m, len(got), m)
			return
		}
		r.Violate("C17/entry-from-truncated-input", api, "input cut at byte %d inside entry %d: nil error and %d entries", pos, m, len(got))
	case kind == "eio-not-hit":
		if err != nil {
			r.Violate("C17/error-on-wellformed", api+"/fault-not-hit", "complete file, no call failed, but: %v", err)
			return
		}
		if len(got) != n {
			r.Violate("C17/entry-count", api+"/fault-not-hit", "got %d entries, want %d", len(got), n)
		}
		for i := 0; i < len(got) && i < n; i++ {
			clCompare(r, api, &got[i], entries[i], i)
		}
	case kind == "eio":
		if err == nil {
			r.Violate("C17/io-error-swallowed", api, "stream failed with EIO at byte %d but the parser returned nil error and %d entries", pos, len(got))
		}
	default: // malformed
		if err != nil {
			return
		}
		if len(got) < n {
			r.Violate("C17/silently-shortened", api+"/"+kind, "entry %d %s: nil error and %d of %d entries", malEntry, kind, len(got), n)
		}
	}
}

// c17One judges ParseFileOne: the first entry of the file, or an error.
func c17One(r *rt.Run, entries []*clEntry, doc []byte, kind string, pos int, got []changelog.ChangelogEntry, err error, task *rt.Task) {
	api := "ParseFileOne"
	if task.Panic != nil {
		r.Violate("C17/panic", api, "panic: %v\n%s", task.Panic, trimStack(task.PanicStack))
		return
	}
	if task.Budget {
		r.Violate("C17/no-termination", api, "step budget exhausted")
		return
	}
	e0 := entries[0]
	firstComplete := true // the first entry is in the file up to and including its trailer
	switch {
	case kind == "truncate":
		firstComplete = pos >= e0.trailerEnd
		if strings.TrimSpace(string(doc[:pos])) == "" {
			// an empty file has no first entry: only an error makes sense
			if err == nil {
				r.Violate("C17/entry-from-truncated-input", api+"/empty", "file with no entry: nil error and an entry")
			}
			return
		}
	case strings.HasPrefix(kind, "malformed"):
		if err != nil {
			return
		}
		// the malformed entry may be a later one; if an entry comes back it must be the first
		if len(got) == 1 && got[0].Source == e0.Source {
			return
		}
		r.Violate("C17/entry-mismatch", api+"/"+kind, "returned entry is not the first entry of the file")
		return
	case kind == "eio":
		if err == nil {
			r.Violate("C17/io-error-swallowed", api, "an open/read call of the parser failed with EIO but ParseFileOne returned nil error")
		}
		return
	}
	if !firstComplete {
		if err == nil {
			r.Violate("C17/entry-from-truncated-input", api, "file cut at byte %d inside its first entry: nil error and an entry", pos)
		}
		return
	}
	noNL := e0.nlEnd == e0.trailerEnd || (kind == "truncate" && pos < e0.nlEnd)
	if err != nil {
		if !noNL {
			r.Violate("C17/error-on-wellformed", api, "first entry complete but: %v", err)
		}
		return
	}
	clCompare(r, api, &got[0], e0, 0)
}

// c17Concurrent: an input that ends inside an entry is parsed first (whatever
// it leaves behind stays in the process), then two callers parse their own
// changelogs concurrently, interleaved at every stream read; each must get
// exactly its own entries.
func c17Concurrent(r *rt.Run, tier string) {
	t := r.T
	_, doc0 := genChangelogR(t, tier, r)
	cut := simio.NewFixedReader(r, "cut", doc0, 0, false)
	cut.TruncateAt(len(doc0) / 2)
	r.Solo("truncated-first", func() { changelog.Parse(cut) })
	type job struct {
		entries []*clEntry
		got     changelog.ChangelogEntries
		err     error
		task    *rt.Task
	}
	jobs := make([]*job, 2+t.Draw(2, "c17.njobs"))
	r.Sticky = t.Draw(2, "sched.sticky")
	for i := range jobs {
		j := &job{}
		var doc []byte
		j.entries, doc = genChangelogR(t, tier, r)
		rd := simio.NewFixedReader(r, fmt.Sprintf("cl%d", i), doc, []int{1, 7, 64}[t.Draw(3, "c17.chunk")], false)
		j.task = r.Go(fmt.Sprintf("P%d", i), func() { j.got, j.err = changelog.Parse(rd) })
		jobs[i] = j
	}
	r.Sched()
	r.Probe("concurrent-parses-after-a-truncated-one")
	for i, j := range jobs {
		if taskTrouble(r, "C17", "concurrent", j.task) {
			return
		}
		noNL := j.entries[len(j.entries)-1].nlEnd == j.entries[len(j.entries)-1].trailerEnd
		if j.err != nil {
			if !noNL {
				r.Violate("C17/error-on-wellformed", "Parse/concurrent", "caller %d: %v", i, j.err)
			}
			continue
		}
		if len(j.got) != len(j.entries) {
			r.Violate("C17/entry-count", "Parse/concurrent", "caller %d got %d entries, wrote %d", i, len(j.got), len(j.entries))
			continue
		}
		for k := range j.got {
			clCompare(r, "Parse/concurrent", &j.got[k], j.entries[k], k)
		}
	}
}

func init() {
	register(&Prop{
		ID: "C17", Level: "fault_enumeration", Variant: "I", Design: "DESIGN.md §5 C17",
		Rule: "Each run draws a changelog from an entry-list model (1..8 entries, options, distributions, body shapes, blank-line runs, final newline or not), a delivery profile for the simulated stream and, in the fault-injecting half, one fault: EOF at byte k (truncation), EIO at byte k, or a malformed header/trailer/date. A seventh of the runs go through changelog.ParseFile / ParseFileOne on the simulated file system (torn file; failing open or read call; every opened file closed again). The thorough tier executes every fault position of every sampled changelog.",
		Run:  runC17, Sweep: true, SweepQuick: 16,
		QuickRuns: 300000, QuickSecs: 25, ThoroughRuns: 6000, ThoroughSecs: 600,
		Components: map[string]interface{}{
			"real_instrumented": []string{"pault.ag/go/debian/changelog (Parse, ParseOne, ParseFile, ParseFileOne)", "pault.ag/go/debian/version (Parse, String)", "bufio, time (stdlib)"},
			"stub":              []string{"simio.Reader (the stream: delivery schedule, EOF placement, EIO)", "verifsim/simos (the file entry points: torn file, failing open/read call)"},
		},
		Assumptions: []string{"reference renderer and entry model written from deb-changelog(5), independent of the library", "time.Time comparison trusts the Go standard library"},
	})
	propProbes["C17"] = []string{"changelog-with-hundreds-of-entries", "result-edited-then-parsed-again", "via-file-entry-point", "file-call-failed:open", "file-call-failed:read", "ParseOne-on-a-small-bufio-reader", "concurrent-parses-after-a-truncated-one", "change-line-longer-than-4096-bytes", "change-line-with-carriage-return", "no-final-newline", "truncate-on-entry-boundary", "truncate-inside-entry", "truncate-only-final-newline-missing"}
}
