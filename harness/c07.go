package main

// C07  Control-file reader recovers every paragraph, field and value.
//
// Simulated: one document producer, the stream, and four consumers of the
// same bytes, each behind its own simulated reader with its own delivery
// profile: Next-until-EOF, All, Unmarshal(&[]T) and a Decoder called
// repeatedly.  Faults: EOF at byte k (truncation), EIO at byte k, and - for the
// any-input invariant - mutated and raw byte strings.

import (
	"fmt"
	"io"
	"strings"

	"pault.ag/go/debian/control"
	"verifsim/rt"
	"verifsim/simio"
)

type rawPara struct {
	control.Paragraph
}

// namedPara is an element type with named fields next to the raw paragraph:
// what decoding puts into the named fields must be what this paragraph says.
type namedPara struct {
	control.Paragraph
	Package    string
	Source     string
	Section    string
	Homepage   string
	Maintainer string
	XFoo       []string `control:"X-Foo" delim:"," strip:" \t\r\n"`
}

// namedDiff compares the named fields of one decoded element with its own paragraph.
func namedDiff(e *namedPara) string {
	for _, f := range []struct{ name, got string }{{"Package", e.Package}, {"Source", e.Source}, {"Section", e.Section}, {"Homepage", e.Homepage}, {"Maintainer", e.Maintainer}} {
		want, present := e.Paragraph.Values[f.name]
		if !present && f.got != "" {
			return fmt.Sprintf("field %s is %q but the paragraph has no such field", f.name, clip(f.got, 80))
		}
		if present && strings.TrimSpace(f.got) != strings.TrimSpace(want) {
			return fmt.Sprintf("field %s is %q, the paragraph says %q", f.name, clip(f.got, 80), clip(want, 80))
		}
	}
	want, present := e.Paragraph.Values["X-Foo"]
	if !present && len(e.XFoo) != 0 {
		return fmt.Sprintf("list field X-Foo has %d items but the paragraph has no such field", len(e.XFoo))
	}
	squeeze := func(s string) string {
		return strings.Map(func(c rune) rune {
			if c == ',' || c == ' ' || c == '\t' || c == '\r' || c == '\n' {
				return -1
			}
			return c
		}, s)
	}
	if present && squeeze(strings.Join(e.XFoo, "")) != squeeze(want) {
		return fmt.Sprintf("list field X-Foo is %q, the paragraph says %q", e.XFoo, clip(want, 80))
	}
	return ""
}

type consumerResult struct {
	paras []control.Paragraph
	err   error
	task  *rt.Task
}

var c07Consumers = []string{"Next", "All", "Unmarshal", "Decoder"}

// runConsumer reads data through one of the four APIs behind a simulated reader.
func runConsumer(r *rt.Run, which string, data []byte, splits []int, fault string, pos int) consumerResult {
	rd := simio.NewReader(r, which, data)
	rd.SetSplits(splits)
	switch fault {
	case "truncate":
		rd.TruncateAt(pos)
	case "eio":
		rd.FailAt(pos)
	case "eio-once":
		rd.FailOnceAt(pos)
	}
	var res consumerResult
	var rd0 io.Reader = rd
	if fault == "" {
		rd0 = typedReader(r, which, data, rd)
	}
	res.task = r.Solo("consumer:"+which, func() {
		var rd io.Reader = rd0
		switch which {
		case "Next":
			pr, err := control.NewParagraphReader(rd, nil)
			if err != nil {
				res.err = err
				return
			}
			for i := 0; i < 1_000_000; i++ {
				p, err := pr.Next()
				if err == io.EOF {
					return
				}
				if err != nil {
					res.err = err
					return
				}
				res.paras = append(res.paras, *p)
			}
			res.err = fmt.Errorf("Next did not reach EOF")
		case "All":
			pr, err := control.NewParagraphReader(rd, nil)
			if err != nil {
				res.err = err
				return
			}
			res.paras, res.err = pr.All()
		case "Unmarshal":
			var out []rawPara
			res.err = control.Unmarshal(&out, rd)
			for _, o := range out {
				res.paras = append(res.paras, o.Paragraph)
			}
		case "Decoder":
			dec, err := control.NewDecoder(rd, nil)
			if err != nil {
				res.err = err
				return
			}
			// the ordinary loop declares its record once and decodes into it again and again
			reuse := r.T.Bool(1, 2, "c07.decoder-reuses-variable")
			var kept rawPara
			for i := 0; i < 1_000_000; i++ {
				var fresh rawPara
				o := &fresh
				if reuse {
					o = &kept
				}
				err := dec.Decode(o)
				if err == io.EOF {
					return
				}
				if err != nil {
					res.err = err
					return
				}
				// (a copy: Order and Values of the next paragraph must not show through)
				cp := control.Paragraph{Order: append([]string{}, o.Paragraph.Order...), Values: map[string]string{}}
				for k, v := range o.Paragraph.Values {
					cp.Values[k] = v
				}
				res.paras = append(res.paras, cp)
			}
			res.err = fmt.Errorf("Decoder did not reach EOF")
		}
	})
	return res
}

func mutateBytes(t *rt.Tape, data []byte, n int) []byte {
	out := append([]byte(nil), data...)
	alphabet := []byte(" \t\n\r:#.-aA0\x00\xc3")
	for i := 0; i < n; i++ {
		if len(out) == 0 {
			out = append(out, alphabet[t.Draw(len(alphabet), "mut.b")])
			continue
		}
		p := t.Draw(len(out), "mut.pos")
		switch t.Draw(4, "mut.op") {
		case 0:
			out[p] = alphabet[t.Draw(len(alphabet), "mut.b")]
		case 1:
			out = append(out[:p], out[p+1:]...)
		case 2:
			out = append(out[:p], append([]byte{alphabet[t.Draw(len(alphabet), "mut.b")]}, out[p:]...)...)
		case 3: // duplicate a line
			s := string(out)
			ls := strings.SplitAfter(s, "\n")
			li := t.Draw(len(ls), "mut.line")
			ls = append(ls[:li+1], ls[li:]...)
			out = []byte(strings.Join(ls, ""))
		}
	}
	return out
}

func runC07(r *rt.Run, tier string) {
	t := r.T
	o := docGenOpts{MinParas: 0, MaxParas: 4, MaxFields: 5, Comments: true, AllowCRLF: true, AllowLong: true}
	if tier == "thorough" {
		o.MaxParas, o.MaxFields = 6, 8
	}
	if t.Bool(1, 80, "c07.many") {
		// hundreds of paragraphs: nothing bounds their number
		o.MinParas = 150 + t.Draw(600, "c07.many.n")
		o.MaxParas = o.MinParas
		o.MaxFields = 3
		o.AllowLong = false
		r.Probe("document-with-hundreds-of-paragraphs")
	}
	model, doc, splits := genDoc(t, o, r)
	mode := t.Weighted([]int{5, 3, 2, 2}, "config.mode") // 0 fault-free, 1 truncate, 2 eio, 3 arbitrary input
	r.Stats[[]string{"config.faultfree", "config.truncate", "config.eio", "config.arbitrary"}[mode]]++

	// the reference reader must agree with the generator model on the intact
	// document - this validates the reference reader itself on every run
	if ref, ok := refParse(doc); !ok || !modelEqual(ref, model) {
		r.Violate("C07/harness-reference-reader-disagrees-with-model", "selfcheck", "reference reader %v/%v vs model %v on %q", ok, ref, model, clip(string(doc), 300))
		return
	}

	check := func(res consumerResult, which string) bool {
		if res.task.Panic != nil {
			r.Violate("C07/panic", which, "panic: %v\n%s", res.task.Panic, trimStack(res.task.PanicStack))
			return false
		}
		if res.task.Budget {
			r.Violate("C07/no-termination", which, "step budget exhausted")
			return false
		}
		for i := range res.paras {
			if kind, msg := paraInvariant(&res.paras[i]); kind != "" {
				r.Violate("C07/paragraph-invariant", which+"/"+kind, "paragraph %d: %s", i, msg)
			}
		}
		return true
	}

	if mode == 0 && t.Bool(1, 4, "c07.tworeaders") {
		// two readers alive at once: reader 1 is drained, reader 2 is created on
		// another document, reader 1 is asked again (still EOF), reader 2 must
		// deliver exactly its own document
		other, doc2, _ := genDoc(t, docGenOpts{MinParas: 1, MaxParas: 3, MaxFields: 3}, r)
		var got1, got2 []control.Paragraph
		var again error
		var afterEOF *control.Paragraph
		var err2 error
		task := r.Solo("two-readers", func() {
			r1, err := control.NewParagraphReader(simio.NewPlainReader(r, "r1", doc), nil)
			if err != nil {
				again = err
				return
			}
			got1, _ = r1.All()
			r2, err := control.NewParagraphReader(simio.NewPlainReader(r, "r2", doc2), nil)
			if err != nil {
				err2 = err
				return
			}
			afterEOF, again = r1.Next()
			if afterEOF == nil {
				afterEOF, again = r1.Next()
			}
			got2, err2 = r2.All()
		})
		if taskTrouble(r, "C07", "two-readers", task) {
			return
		}
		r.Probe("two-readers-alive")
		if afterEOF != nil {
			r.Violate("C07/paragraph-after-end", "two-readers", "a drained reader returned another paragraph (%v) after a second reader was created", afterEOF.Order)
		}
		if err2 != nil || len(got2) != len(other) {
			r.Violate("C07/paragraph-count", "two-readers/second-reader", "second reader: err=%v, %d paragraphs, its document has %d (first reader had delivered %d of %d)", err2, len(got2), len(other), len(got1), len(model))
		} else {
			for i := range other {
				if d := paraDiff(&got2[i], &other[i]); d != "" {
					r.Violate("C07/paragraph-mismatch", "two-readers/second-reader", "paragraph %d: %s", i, d)
					break
				}
			}
		}
		_ = again
	}
	if mode == 0 && t.Bool(1, 4, "c07.slice-reuse") {
		// the caller decodes one document into a slice, empties the slice
		// (s = s[:0], keeping its storage) and decodes another document into it:
		// every element then says what ITS paragraph of the second document says
		other, doc2, _ := genDoc(t, docGenOpts{MinParas: 1, MaxParas: 4, MaxFields: 4}, r)
		var out []namedPara
		var err1, err2 error
		task := r.Solo("slice-reuse", func() {
			err1 = control.Unmarshal(&out, simio.NewPlainReader(r, "first", doc))
			out = out[:0]
			err2 = control.Unmarshal(&out, simio.NewPlainReader(r, "second", doc2))
		})
		if taskTrouble(r, "C07", "slice-reuse", task) {
			return
		}
		r.Probe("slice-emptied-and-decoded-into-again")
		if err1 != nil || err2 != nil {
			r.Violate("C07/error-on-wellformed", "Unmarshal/slice-reuse", "well-formed documents rejected: %v / %v", err1, err2)
		} else if len(out) != len(other) {
			r.Violate("C07/paragraph-count", "Unmarshal/slice-reuse", "second document has %d paragraphs, the re-used slice holds %d", len(other), len(out))
		} else {
			for i := range out {
				if d := paraDiff(&out[i].Paragraph, &other[i]); d != "" {
					r.Violate("C07/paragraph-mismatch", "Unmarshal/slice-reuse", "paragraph %d: %s", i, d)
					break
				}
				if d := namedDiff(&out[i]); d != "" {
					r.Violate("C07/paragraph-mismatch", "Unmarshal/slice-reuse/named-fields", "element %d of the re-used slice: %s", i, d)
					break
				}
			}
		}
	}
	switch mode {
	case 0:
		for _, which := range c07Consumers {
			res := runConsumer(r, which, doc, splits, "", 0)
			if !check(res, which) {
				continue
			}
			if res.err != nil {
				r.Violate("C07/error-on-wellformed", which, "well-formed document rejected: %v\ndoc=%q", res.err, clip(string(doc), 400))
				continue
			}
			if len(res.paras) != len(model) {
				r.Violate("C07/paragraph-count", which, "got %d paragraphs, want %d\ndoc=%q", len(res.paras), len(model), clip(string(doc), 400))
				continue
			}
			for i := range model {
				if d := paraDiff(&res.paras[i], &model[i]); d != "" {
					r.Violate("C07/paragraph-mismatch", which, "paragraph %d: %s\ndoc=%q", i, d, clip(string(doc), 400))
					break
				}
			}
		}
	case 1:
		if len(doc) == 0 {
			return
		}
		pos := t.Draw(len(doc), "faultpos")
		prefix := doc[:pos]
		ref, ok := refParse(prefix)
		if ok {
			r.Probe("truncate-wellformed-prefix")
		} else {
			r.Probe("truncate-malformed-prefix")
		}
		for _, which := range c07Consumers {
			res := runConsumer(r, which, doc, splits, "truncate", pos)
			if !check(res, which) || !ok {
				continue
			}
			if res.err != nil {
				r.Violate("C07/error-on-wellformed", which+"/prefix", "well-formed prefix (cut at %d) rejected: %v\nprefix=%q", pos, res.err, clip(string(prefix), 400))
				continue
			}
			if len(res.paras) != len(ref) {
				r.Violate("C07/paragraph-count", which+"/prefix", "cut at %d: got %d paragraphs, want %d\nprefix=%q", pos, len(res.paras), len(ref), clip(string(prefix), 400))
				continue
			}
			for i := range ref {
				if d := paraDiff(&res.paras[i], &ref[i]); d != "" {
					r.Violate("C07/paragraph-mismatch", which+"/prefix", "cut at %d, paragraph %d: %s", pos, i, d)
					break
				}
			}
		}
	case 2:
		pos := t.Draw(len(doc)+1, "faultpos")
		if t.Bool(1, 3, "fault.transient") {
			// the stream fails ONCE (a retried read succeeds): every consumer must
			// either report the error or deliver exactly the document - a fault
			// must never turn into silently different data
			r.Probe("transient-read-fault")
			for _, which := range c07Consumers {
				res := runConsumer(r, which, doc, splits, "eio-once", pos)
				if !check(res, which) || res.err != nil {
					continue
				}
				if len(res.paras) != len(model) {
					r.Violate("C07/fault-changed-the-data", which+"/transient-eio", "one read failed at byte %d and no error was reported, but %d paragraphs were returned instead of %d\ndoc=%q", pos, len(res.paras), len(model), clip(string(doc), 300))
					continue
				}
				for i := range model {
					if d := paraDiff(&res.paras[i], &model[i]); d != "" {
						r.Violate("C07/fault-changed-the-data", which+"/transient-eio", "one read failed at byte %d and no error was reported, but paragraph %d differs: %s", pos, i, d)
						break
					}
				}
			}
			return
		}
		for _, which := range c07Consumers {
			res := runConsumer(r, which, doc, splits, "eio", pos)
			if !check(res, which) {
				continue
			}
			if res.err == nil {
				r.Violate("C07/io-error-swallowed", which, "stream failed with EIO at byte %d of %d but %s returned nil error and %d paragraphs", pos, len(doc), which, len(res.paras))
				continue
			}
			if res.err == io.EOF {
				r.Violate("C07/io-error-reported-as-eof", which, "stream failed with EIO at byte %d but %s reported io.EOF", pos, which)
			}
			// what was handed out before the error must be a prefix of the model
			if which == "Next" || which == "Decoder" {
				if len(res.paras) > len(model) {
					r.Violate("C07/paragraph-count", which+"/eio", "got %d paragraphs before the error, document has %d", len(res.paras), len(model))
					continue
				}
				for i := range res.paras {
					if d := paraDiff(&res.paras[i], &model[i]); d != "" {
						r.Violate("C07/paragraph-mismatch", which+"/eio", "paragraph %d before EIO: %s", i, d)
						break
					}
				}
			}
		}
	case 3:
		var data []byte
		if t.Bool(1, 3, "arb.raw") {
			n := t.Range(0, 60, "arb.len")
			alphabet := []byte(" \t\n\n\r:#.-aAbX0\x00\xc3")
			for i := 0; i < n; i++ {
				data = append(data, alphabet[t.Draw(len(alphabet), "arb.b")])
			}
			r.Probe("arbitrary-raw")
		} else {
			data = mutateBytes(t, doc, t.Range(1, 4, "mut.n"))
			r.Probe("arbitrary-mutated")
		}
		r.NonTrivial = true
		var results []consumerResult
		for _, which := range c07Consumers {
			res := runConsumer(r, which, data, nil, "", 0)
			check(res, which)
			results = append(results, res)
		}
		// the four consumers see the same sequence
		next := results[0]
		for i, which := range c07Consumers[1:] {
			res := results[i+1]
			if (res.err == nil) != (next.err == nil) {
				r.Violate("C07/consumers-disagree", which, "Next: err=%v (%d paragraphs) but %s: err=%v (%d paragraphs)\ninput=%q", next.err, len(next.paras), which, res.err, len(res.paras), clip(string(data), 300))
				continue
			}
			if res.err == nil && !sameParas(res.paras, next.paras) {
				r.Violate("C07/consumers-disagree", which, "Next and %s return different paragraphs\ninput=%q", which, clip(string(data), 300))
			}
		}
		if ref, ok := refParse(data); ok {
			r.Probe("arbitrary-still-wellformed")
			if next.err == nil && len(next.paras) == len(ref) {
				for i := range ref {
					if d := paraDiff(&next.paras[i], &ref[i]); d != "" {
						r.Violate("C07/paragraph-mismatch", "Next/arbitrary", "paragraph %d: %s\ninput=%q", i, d, clip(string(data), 300))
						break
					}
				}
			} else if next.err != nil {
				r.Violate("C07/error-on-wellformed", "Next/arbitrary", "well-formed input rejected: %v\ninput=%q", next.err, clip(string(data), 300))
			} else {
				r.Violate("C07/paragraph-count", "Next/arbitrary", "got %d paragraphs want %d\ninput=%q", len(next.paras), len(ref), clip(string(data), 300))
			}
		}
	}
}

func sameParas(a, b []control.Paragraph) bool {
	if len(a) != len(b) {
		return false
	}
	for i := range a {
		if len(a[i].Order) != len(b[i].Order) || len(a[i].Values) != len(b[i].Values) {
			return false
		}
		for j := range a[i].Order {
			if a[i].Order[j] != b[i].Order[j] {
				return false
			}
		}
		for k, v := range a[i].Values {
			if b[i].Values[k] != v {
				return false
			}
		}
	}
	return true
}

func init() {
	register(&Prop{
		ID: "C07", Level: "exploration", Variant: "N", Design: "DESIGN.md §5 C07",
		Rule:      "Each run draws a deb822 document from a model (0..6 paragraphs, field names, empty or non-empty first line, space/tab continuation lines with kept indentation, ' .' lines, comments in every legal position, blank-line runs, LF or CRLF, final newline or not, occasionally lines > 4 KiB) and feeds the same bytes to four consumers (Next, All, Unmarshal into a slice, Decoder), each behind its own simulated reader with its own delivery schedule. Configurations: fault-free (exact equality with the model), truncation at byte k (equality with an independent reference reader of the prefix when that prefix is well-formed), EIO at byte k, and arbitrary input (mutated documents and raw bytes; invariant and consumer agreement).",
		Run:       runC07,
		QuickRuns: 300000, QuickSecs: 30, ThoroughRuns: 6_000_000, ThoroughSecs: 900,
		Components: map[string]interface{}{
			"real": []string{"pault.ag/go/debian/control (NewParagraphReader, Next, All, Unmarshal, NewDecoder, Decode)", "bufio (stdlib)"},
			"stub": []string{"simio.Reader (delivery schedule, EOF placement, truncation, EIO)"},
		},
		Assumptions: []string{"generator model and reference reader written from Debian Policy 5.1 / deb822(5), independent of the library; the reference reader is checked against the generator model on every run"},
	})
	propProbes["C07"] = []string{"document-with-hundreds-of-paragraphs", "slice-emptied-and-decoded-into-again", "transient-read-fault", "two-readers-alive", "crlf", "comment-between-continuations", "comment-before-first", "comment-last", "no-final-newline", "long-line", "empty-first-line", "dot-line", "truncate-wellformed-prefix", "arbitrary-raw", "arbitrary-mutated"}
}
