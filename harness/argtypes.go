package main

// The argument's concrete TYPE is part of how a stream or a device presents
// itself to the library: code may take a fast path for *bytes.Reader,
// *bufio.Reader, *os.File, io.WriterTo, io.ReaderFrom, io.ByteScanner ...
// In fault-free configurations the harness therefore hands the same bytes in
// through different concrete types, chosen from the tape.

import (
	"bufio"
	"bytes"
	"io"
	"strings"

	"verifsim/rt"
	"verifsim/simio"
)

// typedReader returns the stream for data: mostly the simulated reader (with
// its delivery schedule), sometimes a standard concrete type.
func typedReader(r *rt.Run, name string, data []byte, sim *simio.Reader) io.Reader {
	t := r.T
	k := t.Weighted([]int{10, 1, 1, 1, 1, 1, 1}, "arg.readertype")
	if k > 0 {
		r.Stats["arg.reader."+[]string{"simio", "bytes.Reader", "strings.Reader", "bytes.Buffer", "bufio.Reader(small)", "io.MultiReader", "iotest-one-byte"}[k]]++
		r.Probe("stream-handed-in-as-a-standard-concrete-type")
	}
	switch k {
	case 1:
		return bytes.NewReader(data)
	case 2:
		return strings.NewReader(string(data))
	case 3:
		return bytes.NewBuffer(append([]byte(nil), data...))
	case 4:
		return bufio.NewReaderSize(sim, 16+t.Draw(3, "arg.bufio")*100)
	case 5:
		h := len(data) / 2
		return io.MultiReader(bytes.NewReader(data[:h]), strings.NewReader(string(data[h:])))
	case 6:
		return oneByteReader{bytes.NewReader(data)}
	}
	return sim
}

type oneByteReader struct{ r io.Reader }

func (o oneByteReader) Read(p []byte) (int, error) {
	if len(p) == 0 {
		return 0, nil
	}
	return o.r.Read(p[:1])
}

// typedReaderAt returns the device for img: mostly the simulated disk,
// sometimes a standard concrete type.
func typedReaderAt(r *rt.Run, img []byte, sim io.ReaderAt) io.ReaderAt {
	t := r.T
	k := t.Weighted([]int{10, 1, 1, 1}, "arg.readerattype")
	if k > 0 {
		r.Stats["arg.readerat."+[]string{"simdisk", "bytes.Reader", "strings.Reader", "io.SectionReader(exact)"}[k]]++
		r.Probe("device-handed-in-as-a-standard-concrete-type")
	}
	// the object may have been read sequentially before it is handed in (magic
	// sniffed, whole file checksummed, position left at the end): ReadAt does
	// not care where the sequential position is
	used := func(rs io.ReadSeeker) {
		switch t.Draw(4, "arg.readerat.used") {
		case 1:
			io.CopyN(io.Discard, rs, 8)
		case 2:
			io.Copy(io.Discard, rs)
		case 3:
			rs.Seek(int64(len(img)/2), io.SeekStart)
		}
	}
	switch k {
	case 1:
		b := bytes.NewReader(img)
		used(b)
		return b
	case 2:
		b := strings.NewReader(string(img))
		used(b)
		return b
	case 3:
		b := io.NewSectionReader(bytes.NewReader(img), 0, int64(len(img)))
		used(b)
		return b
	}
	return sim
}

// typedWriter wraps the simulated sink in a standard concrete writer type (the
// returned flush function must be called when writing is over).
func typedWriter(r *rt.Run, sink *simio.Writer) (io.Writer, func() error) {
	t := r.T
	k := t.Weighted([]int{10, 1, 1, 1}, "arg.writertype")
	if k > 0 {
		r.Stats["arg.writer."+[]string{"simio", "bufio.Writer", "bytes.Buffer", "strings.Builder"}[k]]++
		r.Probe("sink-handed-in-as-a-standard-concrete-type")
	}
	switch k {
	case 1:
		bw := bufio.NewWriterSize(sink, 16+t.Draw(3, "arg.bufiow")*2000)
		return bw, bw.Flush
	case 2:
		var b bytes.Buffer
		return &b, func() error { _, err := sink.Write(b.Bytes()); return err }
	case 3:
		var b strings.Builder
		return &b, func() error { _, err := sink.Write([]byte(b.String())); return err }
	}
	return sink, func() error { return nil }
}
