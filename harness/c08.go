package main

// C08  Writing paragraphs and reading them back preserves their content.
//
// Simulated: a "document store": library writer -> simulated sink -> stored
// bytes -> simulated source -> library reader, driven through several
// write/read cycles.  Faults: short write / ENOSPC / EIO of the sink at byte k.

import (
	"bytes"
	"fmt"
	"io"
	"strings"

	"pault.ag/go/debian/control"
	"verifsim/rt"
	"verifsim/simio"
)

type c08Field struct {
	Name   string
	Value  string // what is stored in the Paragraph
	Expect string // value expected back, modulo one trailing newline (leading marker removed)
	Shape  string
}

var lineAtoms = []string{"foo", "bar baz", "  indented", "\tx", "a: b", "#hash", "-dash", "..", ". .", "x.", "é 日本", "(>= 1.0)", "k=v"}

func genLine(t *rt.Tape, label string, first bool) string {
	s := lineAtoms[t.Draw(len(lineAtoms), label)]
	if first {
		s = strings.TrimSpace(s)
	}
	return s
}

func strip1(s string) string { return strings.TrimSuffix(s, "\n") }

// genC08Value draws a value that is a sequence of text lines.
func genC08Value(t *rt.Tape, r *rt.Run) (value, expect, shape string) {
	switch t.Weighted([]int{3, 1, 6, 2}, "v.kind") {
	case 0:
		l := genLine(t, "v.line", true)
		if t.Bool(1, 4, "v.trailnl") {
			r.Probe("single-line-with-trailing-newline")
			return l + "\n", l + "\n", "single+nl"
		}
		return l, l, "single"
	case 1:
		return "", "", "empty"
	}
	// multi-line: first line, then continuation lines with runs of empty lines
	lines := []string{genLine(t, "v.first", true)}
	if t.Bool(1, 30, "v.long") {
		// a physical line longer than any default bufio buffer
		lines[0] = strings.TrimSpace(strings.Repeat(lines[0]+" ", 1+(4200+t.Draw(5000, "v.longlen"))/(len(lines[0])+1)))
		r.Probe("line-longer-than-4096-bytes")
	}
	n := t.Range(1, 5, "v.nlines")
	for i := 0; i < n; i++ {
		switch t.Weighted([]int{5, 2, 1, 1, 1}, "v.linekind") {
		case 0:
			lines = append(lines, genLine(t, "v.line", false))
		case 1:
			lines = append(lines, "")
		case 2:
			lines = append(lines, "", "")
			r.Probe("two-empty-lines")
		case 3:
			lines = append(lines, "", "", "")
			r.Probe("three-empty-lines")
		case 4:
			lines = append(lines, "", "", "", "")
			r.Probe("four-empty-lines")
		}
	}
	body := strings.Join(lines, "\n")
	shape = "multi"
	marker := ""
	if t.Bool(1, 3, "v.marker") {
		// the library's multi-line marker: a leading newline that is not a line
		marker = "\n"
		shape = "marker+multi"
		r.Probe("leading-marker")
	}
	if t.Bool(1, 2, "v.trailnl") {
		body += "\n"
		shape += "+nl"
		r.Probe("multi-line-with-trailing-newline")
	}
	// expected back: the stored value without the marker (compared modulo one
	// trailing newline on both sides)
	return marker + body, body, shape
}

// lossyShape names the two field shapes that the reader flattens lossily: an
// empty first line followed by an empty (" .") line, or by an indented line.
func lossyShape(f *mField) string {
	if f == nil || len(f.Lines) == 0 {
		return ""
	}
	if f.Lines[0] == "" && len(f.Lines) > 1 {
		return "leading-empty-line"
	}
	if f.Lines[0] != strings.TrimLeft(f.Lines[0], " \t") {
		return "indented-first-line"
	}
	return ""
}

type embedPara struct {
	control.Paragraph
}

// scanWritten checks the "no empty or whitespace-only line inside a paragraph,
// exactly one empty line between paragraphs" clause on written bytes.
func scanWritten(out []byte, nparas int) string {
	s := string(out)
	if s == "" {
		if nparas == 0 {
			return ""
		}
		return "nothing written"
	}
	if !strings.HasSuffix(s, "\n") {
		return "output does not end in a newline"
	}
	lines := strings.Split(s[:len(s)-1], "\n")
	empties := 0
	for i, l := range lines {
		if l == "" {
			empties++
			if i == 0 || i == len(lines)-1 {
				return fmt.Sprintf("empty line at the edge of the output (line %d)", i)
			}
			if lines[i-1] == "" {
				return fmt.Sprintf("two consecutive empty lines (line %d)", i)
			}
			continue
		}
		if strings.Trim(l, " \t\r") == "" {
			return fmt.Sprintf("whitespace-only line %d (%q) inside a paragraph", i, l)
		}
	}
	if empties != nparas-1 {
		return fmt.Sprintf("%d empty lines for %d paragraphs", empties, nparas)
	}
	return ""
}

// writeParas writes the paragraphs through one of the library's writers.
// c08Groups is the shape of the EncoderMixed call sequence: each entry n>0 is
// one Encode of a slice of n structs, 0 is one Encode of a single struct.
var c08Groups []int

func writeParas(r *rt.Run, api string, paras []control.Paragraph, w *simio.Writer) (err error, task *rt.Task) {
	task = r.Solo("writer:"+api, func() { err = writeBody(api, paras, w) })
	return
}

// writeBody writes the paragraphs through one of the APIs (inside a task).
func writeBody(api string, paras []control.Paragraph, w io.Writer) (err error) {
	func() {
		switch api {
		case "WriteTo":
			// one paragraph per WriteTo; the caller separates them
			for i := range paras {
				if i > 0 {
					if _, err = w.Write([]byte("\n")); err != nil {
						return
					}
				}
				if err = paras[i].WriteTo(w); err != nil {
					return
				}
			}
		case "Encoder":
			enc, e := control.NewEncoder(w)
			if e != nil {
				err = e
				return
			}
			for i := range paras {
				if err = enc.Encode(&embedPara{paras[i]}); err != nil {
					return
				}
			}
		case "EncoderMixed":
			// one Encoder, a mix of single structs and slices
			enc, e := control.NewEncoder(w)
			if e != nil {
				err = e
				return
			}
			i := 0
			for _, g := range c08Groups {
				if i >= len(paras) {
					break
				}
				if g == 0 {
					if err = enc.Encode(&embedPara{paras[i]}); err != nil {
						return
					}
					i++
					continue
				}
				sl := []embedPara{}
				for j := 0; j < g && i < len(paras); j++ {
					sl = append(sl, embedPara{paras[i]})
					i++
				}
				if err = enc.Encode(sl); err != nil {
					return
				}
			}
			for ; i < len(paras); i++ {
				if err = enc.Encode(&embedPara{paras[i]}); err != nil {
					return
				}
			}
		case "MarshalSlice":
			sl := []embedPara{}
			for i := range paras {
				sl = append(sl, embedPara{paras[i]})
			}
			err = control.Marshal(w, sl)
		}
	}()
	return
}

// c08ReadFaultAt >= 0 plans one transient read fault for the next readParas call.
var c08ReadFaultAt = -1

func readParas(r *rt.Run, data []byte) ([]control.Paragraph, error, *rt.Task) {
	rd := simio.NewReader(r, "store", data)
	if c08ReadFaultAt >= 0 {
		rd.FailOnceAt(c08ReadFaultAt)
		c08ReadFaultAt = -1
	}
	var out []control.Paragraph
	var err error
	task := r.Solo("reader", func() {
		pr, e := control.NewParagraphReader(rd, nil)
		if e != nil {
			err = e
			return
		}
		out, err = pr.All()
	})
	return out, err, task
}

func taskTrouble(r *rt.Run, id, key string, t *rt.Task) bool {
	if t.Panic != nil {
		r.Violate(id+"/panic", key, "panic: %v\n%s", t.Panic, trimStack(t.PanicStack))
		return true
	}
	if t.Budget {
		r.Violate(id+"/no-termination", key, "step budget exhausted")
		return true
	}
	return false
}

// c08Retry: a TRANSIENT sink fault (one Write call accepts nothing and fails,
// the sink is healthy afterwards) at a paragraph boundary of an Encoder
// sequence; the caller retries the failed Encode on the same Encoder, as a
// caller of a streaming API would.  What the sink finally holds must read back
// as exactly the paragraphs whose Encode returned nil.
func c08Retry(r *rt.Run, paras []control.Paragraph, expect [][]c08Field, w0 *simio.Writer) {
	t := r.T
	// boundary calls of the fault-free run: a separator write, or the first
	// write of a paragraph
	var boundary []int
	for i, off := range w0.Offs {
		sep := w0.Sizes[i] == 1 && w0.Buf[off] == '\n' && off > 0 && w0.Buf[off-1] == '\n'
		first := off == 0 || (off >= 2 && w0.Buf[off-1] == '\n' && w0.Buf[off-2] == '\n')
		if sep || first {
			boundary = append(boundary, i+1)
		}
	}
	if len(boundary) == 0 {
		return
	}
	call := boundary[t.Draw(len(boundary), "fault.call")]
	w := simio.NewWriter(r, "sinkT")
	w.FailOnceAtCall(call, simio.ErrIO)
	retried := false
	var werr error
	task := r.Solo("writer:Encoder/retry", func() {
		enc, e := control.NewEncoder(w)
		if e != nil {
			werr = e
			return
		}
		for i := range paras {
			err := enc.Encode(&embedPara{paras[i]})
			if err != nil && !retried {
				retried = true
				err = enc.Encode(&embedPara{paras[i]})
			}
			if err != nil {
				werr = err
				return
			}
		}
	})
	if taskTrouble(r, "C08", "Encoder/retry", task) {
		return
	}
	if !w.Fired {
		return
	}
	r.Probe("encode-retried-after-transient-write-error")
	if werr != nil {
		// an Encoder may refuse to go on after a write error; nothing is claimed then
		r.Probe("encoder-refused-to-continue-after-write-error")
		return
	}
	got, err, rtask := readParas(r, w.Buf)
	if taskTrouble(r, "C08", "read", rtask) {
		return
	}
	if err != nil || len(got) != len(paras) {
		r.Violate("C08/paragraph-count", "Encoder/retry-after-transient-error", "one Write call (#%d, at a paragraph boundary) failed once and the Encode was retried: %d paragraphs encoded with nil error, reading back gives %d (err=%v)\nwritten=%q", call, len(paras), len(got), err, clip(string(w.Buf), 400))
		return
	}
	for i := range got {
		for j, f := range expect[i] {
			if j >= len(got[i].Order) || got[i].Order[j] != f.Name || strip1(got[i].Values[f.Name]) != strip1(f.Expect) {
				r.Violate("C08/roundtrip-mismatch", "Encoder/retry-after-transient-error", "paragraph %d field %q differs after a retried Encode\nwritten=%q", i, f.Name, clip(string(w.Buf), 400))
				return
			}
		}
	}
}

// c08Callers: several callers write their own paragraphs to their own sinks at
// the same time (interleaved at every Write of every sink), then their stores
// are read back by readers that are alive at the same time.  Each sink holds
// exactly the bytes its caller produces alone, and each reader returns exactly
// its own store.
func c08Callers(r *rt.Run) {
	t := r.T
	n := 2 + t.Draw(2, "c08.callers")
	type caller struct {
		api   string
		paras []control.Paragraph
		solo  []byte
		sink  *simio.Writer
		err   error
		task  *rt.Task
	}
	cs := make([]*caller, n)
	for i := range cs {
		c := &caller{api: []string{"WriteTo", "Encoder", "MarshalSlice"}[t.Draw(3, "c08.api")]}
		for k, np := 0, t.Range(1, 3, "c08.paras"); k < np; k++ {
			p := control.Paragraph{Values: map[string]string{}}
			used := map[string]bool{}
			for j, nf := 0, t.Range(1, 4, "c08.fields"); j < nf; j++ {
				name := genFieldName(t, used)
				v, _, _ := genC08Value(t, r)
				p.Order = append(p.Order, name)
				p.Values[name] = v
			}
			c.paras = append(c.paras, p)
		}
		w0 := simio.NewWriter(r, fmt.Sprintf("solo%d", i))
		err, task := writeParas(r, c.api, c.paras, w0)
		if taskTrouble(r, "C08", c.api, task) {
			return
		}
		if err != nil {
			r.Violate("C08/write-error", c.api, "writing to a healthy sink failed: %v", err)
			return
		}
		c.solo = w0.Buf
		cs[i] = c
	}
	r.Sticky = t.Draw(3, "sched.sticky")
	for i, c := range cs {
		c := c
		c.sink = simio.NewWriter(r, fmt.Sprintf("sink%d", i))
		c.task = r.Go(fmt.Sprintf("W%d", i), func() { c.err = writeBody(c.api, c.paras, c.sink) })
	}
	r.Sched()
	r.Probe("several-callers-writing-at-the-same-time")
	for i, c := range cs {
		if taskTrouble(r, "C08", "concurrent-callers", c.task) {
			return
		}
		if c.err != nil {
			r.Violate("C08/write-error", "concurrent-callers", "caller %d (%s): %v", i, c.api, c.err)
			return
		}
		if !bytes.Equal(c.sink.Buf, c.solo) {
			r.Violate("C08/output-depends-on-other-callers", c.api, "caller %d wrote %q while other callers were writing their own paragraphs to their own sinks; alone it writes %q", i, clip(string(c.sink.Buf), 300), clip(string(c.solo), 300))
			return
		}
	}
	// read back: each store alone, then with readers alive at the same time -
	// reader i is drained, reader i+1 is created, reader i is asked once more
	alone := make([][]control.Paragraph, n)
	for i, c := range cs {
		got, err, task := readParas(r, c.solo)
		if taskTrouble(r, "C08", "reread", task) || err != nil {
			return // judged by the main part of the check
		}
		alone[i] = got
	}
	nested := make([][]control.Paragraph, n)
	var late *control.Paragraph
	var nerr error
	task := r.Solo("nested-readers", func() {
		var prev *control.ParagraphReader
		for i, c := range cs {
			pr, err := control.NewParagraphReader(simio.NewPlainReader(r, fmt.Sprintf("store%d", i), c.solo), nil)
			if err != nil {
				nerr = err
				return
			}
			if prev != nil {
				if p, _ := prev.Next(); p != nil {
					late = p
				}
			}
			nested[i], err = pr.All()
			if err != nil {
				nerr = err
				return
			}
			prev = pr
		}
	})
	if taskTrouble(r, "C08", "nested-readers", task) {
		return
	}
	r.Probe("stores-read-back-by-readers-alive-at-the-same-time")
	if late != nil {
		r.Violate("C08/reread-depends-on-other-readers", "drained-reader-returns-more", "a reader that had reached the end of its store returned another paragraph (%v) once the next store's reader existed", late.Order)
		return
	}
	if nerr != nil {
		r.Violate("C08/reread-error", "nested-readers", "%v", nerr)
		return
	}
	for i := range cs {
		if len(nested[i]) != len(alone[i]) {
			r.Violate("C08/reread-depends-on-other-readers", "paragraph-count", "store %d reads back as %d paragraphs alone and as %d while an earlier store's reader is still around", i, len(alone[i]), len(nested[i]))
			return
		}
		for k := range alone[i] {
			if fmt.Sprint(alone[i][k].Order) != fmt.Sprint(nested[i][k].Order) || fmt.Sprint(alone[i][k].Values) != fmt.Sprint(nested[i][k].Values) {
				r.Violate("C08/reread-depends-on-other-readers", "paragraph", "store %d paragraph %d differs between a lone reader and nested readers", i, k)
				return
			}
		}
	}
}

// c08Derived: one paragraph, as the reader produced it, is the base of several
// derived paragraphs (base.Update(extra_i)); each derived paragraph, and the
// base itself, is written - some of them twice - and read back: every one holds
// the base's fields followed by its own extra fields, whatever was derived or
// written before.
func c08Derived(r *rt.Run) {
	t := r.T
	m, doc, _ := genDoc(t, docGenOpts{MinParas: 1, MaxParas: 1, MaxFields: 5, NoTrailingBlanksOnLines: true}, r)
	got, err, task := readParas(r, doc)
	if taskTrouble(r, "C08", "read0", task) || err != nil || len(got) != 1 {
		return
	}
	base := got[0]
	baseOrder := append([]string{}, base.Order...)
	_ = m
	n := 2 + t.Draw(3, "c08.derived.n")
	derived := make([]control.Paragraph, n)
	extras := make([][]string, n)
	for i := range derived {
		x := control.Paragraph{Values: map[string]string{}}
		for j, k := 0, 1+t.Draw(2, "c08.derived.k"); j < k; j++ {
			name := fmt.Sprintf("X-Extra-%d-%d", i, j)
			x.Set(name, fmt.Sprintf("extra value %d %d", i, j))
			extras[i] = append(extras[i], name)
		}
		derived[i] = base.Update(x)
	}
	r.Probe("several-paragraphs-derived-from-one-base")
	check := func(tag string, p *control.Paragraph, wantOrder []string) bool {
		w := simio.NewWriter(r, "sink")
		var werr error
		task := r.Solo("writer", func() { werr = p.WriteTo(w) })
		if taskTrouble(r, "C08", "derived/"+tag, task) {
			return false
		}
		if werr != nil {
			r.Violate("C08/write-error", "derived", "%s: %v", tag, werr)
			return false
		}
		back, rerr, task := readParas(r, w.Buf)
		if taskTrouble(r, "C08", "derived/"+tag, task) {
			return false
		}
		if rerr != nil || len(back) != 1 {
			r.Violate("C08/reread-error", "derived-paragraph", "%s: reading back failed: err=%v paragraphs=%d\nwritten=%q", tag, rerr, len(back), clip(string(w.Buf), 300))
			return false
		}
		if fmt.Sprint(back[0].Order) != fmt.Sprint(wantOrder) {
			r.Violate("C08/roundtrip-mismatch", "derived-paragraph/fields", "%s reads back with fields %v, want %v\nwritten=%q", tag, back[0].Order, wantOrder, clip(string(w.Buf), 300))
			return false
		}
		for _, k := range wantOrder {
			if strings.HasPrefix(k, "X-Extra-") && strings.TrimSpace(back[0].Values[k]) != "extra value "+strings.ReplaceAll(strings.TrimPrefix(k, "X-Extra-"), "-", " ") {
				r.Violate("C08/roundtrip-mismatch", "derived-paragraph/value", "%s: field %s reads back as %q", tag, k, back[0].Values[k])
				return false
			}
		}
		return true
	}
	order := t.Perm(n, "c08.derived.order")
	for _, i := range order {
		want := append(append([]string{}, baseOrder...), extras[i]...)
		if !check(fmt.Sprintf("derived paragraph %d of %d", i, n), &derived[i], want) {
			return
		}
		if t.Bool(1, 2, "c08.derived.twice") && !check(fmt.Sprintf("derived paragraph %d of %d (second write)", i, n), &derived[i], want) {
			return
		}
	}
	check("the base paragraph after its derivations were written", &base, baseOrder)
}

// c08EmptyInSequence: an Encoder (or Marshal of a slice) is given a sequence of
// paragraphs some of which have no field at all; what is written reads back as
// exactly the non-empty paragraphs, in order, one each.
func c08EmptyInSequence(r *rt.Run) {
	t := r.T
	n := 3 + t.Draw(3, "c08.eseq.n")
	var seq []embedPara
	var want []control.Paragraph
	for i := 0; i < n; i++ {
		p := control.Paragraph{Values: map[string]string{}}
		if i > 0 && i < n-1 && t.Bool(1, 2, "c08.eseq.empty") || t.Bool(1, 8, "c08.eseq.empty-anywhere") {
			seq = append(seq, embedPara{p})
			continue
		}
		for j, nf := 0, 1+t.Draw(3, "c08.eseq.fields"); j < nf; j++ {
			p.Set(fmt.Sprintf("Field-%d-%d", i, j), fmt.Sprintf("value %d %d", i, j))
		}
		seq = append(seq, embedPara{p})
		want = append(want, p)
	}
	asSlice := t.Bool(1, 3, "c08.eseq.slice")
	w := simio.NewWriter(r, "sink")
	var err error
	task := r.Solo("encoder", func() {
		if asSlice {
			err = control.Marshal(w, seq)
			return
		}
		enc, e := control.NewEncoder(w)
		if e != nil {
			err = e
			return
		}
		for i := range seq {
			if err = enc.Encode(&seq[i]); err != nil {
				return
			}
		}
	})
	if taskTrouble(r, "C08", "Encoder/sequence-with-empty-paragraphs", task) {
		return
	}
	r.Probe("encoder-sequence-with-paragraphs-that-have-no-field")
	if err != nil {
		r.Violate("C08/write-error", "Encoder/sequence-with-empty-paragraphs", "%v", err)
		return
	}
	back, rerr, task := readParas(r, w.Buf)
	if taskTrouble(r, "C08", "reread", task) {
		return
	}
	if rerr != nil || len(back) != len(want) {
		r.Violate("C08/paragraph-count", "Encoder/sequence-with-empty-paragraphs", "%d paragraphs were encoded, %d of them with fields; reading back gives %d (err=%v)\nwritten=%q", n, len(want), len(back), rerr, clip(string(w.Buf), 400))
		return
	}
	for i := range want {
		if fmt.Sprint(back[i].Order) != fmt.Sprint(want[i].Order) {
			r.Violate("C08/roundtrip-mismatch", "Encoder/sequence-with-empty-paragraphs", "paragraph %d reads back with fields %v, written %v", i, back[i].Order, want[i].Order)
			return
		}
	}
}

func runC08(r *rt.Run, tier string) {
	t := r.T
	if t.Bool(1, 14, "c08.part-emptyseq") {
		r.Stats["part.empty-in-sequence"]++
		c08EmptyInSequence(r)
		return
	}
	if t.Bool(1, 10, "c08.part-derived") {
		r.Stats["part.derived"]++
		c08Derived(r)
		return
	}
	if t.Bool(1, 6, "c08.part-callers") {
		r.Stats["part.callers"]++
		c08Callers(r)
		return
	}
	apis := []string{"WriteTo", "Encoder", "MarshalSlice", "EncoderMixed"}
	api := apis[t.Draw(len(apis), "c08.api")]
	c08Groups = nil
	if api == "EncoderMixed" {
		for i := 0; i < 4; i++ {
			c08Groups = append(c08Groups, t.Draw(3, "c08.group"))
		}
		r.Probe("encoder-mixes-structs-and-slices")
	}
	faulty := t.Bool(1, 3, "config.faulty")
	docFirst := t.Bool(1, 3, "c08.docfirst")

	var paras []control.Paragraph
	var expect [][]c08Field
	var model []mPara
	if docFirst {
		// documents accepted by the reader: read, then write what was read
		r.Stats["workload.document-first"]++
		m, doc, _ := genDoc(t, docGenOpts{MinParas: 1, MaxParas: 3, MaxFields: 4, Comments: true, AllowCRLF: true, AllowLong: true, ExoticBlanks: true}, r)
		model = m
		got, err, task := readParas(r, doc)
		if taskTrouble(r, "C08", "read0", task) {
			return
		}
		if err != nil || len(got) != len(m) {
			r.Violate("C08/initial-read", "document-first", "reading a well-formed document failed: err=%v paragraphs=%d want %d", err, len(got), len(m))
			return
		}
		paras = got
		for _, p := range got {
			fs := []c08Field{}
			for _, k := range p.Order {
				fs = append(fs, c08Field{Name: k, Value: p.Values[k], Expect: p.Values[k], Shape: "reader-produced"})
			}
			expect = append(expect, fs)
		}
	} else {
		r.Stats["workload.paragraph-first"]++
		np := t.Range(1, 4, "c08.paras")
		for i := 0; i < np; i++ {
			p := control.Paragraph{Values: map[string]string{}}
			used := map[string]bool{}
			fs := []c08Field{}
			for j, nf := 0, t.Range(1, 4, "c08.fields"); j < nf; j++ {
				f := c08Field{Name: genFieldName(t, used)}
				f.Value, f.Expect, f.Shape = genC08Value(t, r)
				p.Order = append(p.Order, f.Name)
				p.Values[f.Name] = f.Value
				fs = append(fs, f)
			}
			switch t.Draw(3, "c08.build") {
			case 1:
				// built through Set, some keys set twice (the later value counts, the position stays)
				q := control.Paragraph{Values: map[string]string{}}
				for _, f := range fs {
					if t.Bool(1, 3, "c08.set-twice") {
						// a placeholder first - empty, or some text - and the real value later
						q.Set(f.Name, []string{"provisional value", ""}[t.Draw(2, "c08.set-placeholder")])
					}
				}
				for _, f := range fs {
					q.Set(f.Name, f.Value)
				}
				if fmt.Sprint(q.Values) == fmt.Sprint(p.Values) && len(q.Order) == len(p.Order) {
					// the order is that of first mention; re-derive the expectation from it
					byName := map[string]c08Field{}
					for _, f := range fs {
						byName[f.Name] = f
					}
					fs = fs[:0]
					for _, k := range q.Order {
						fs = append(fs, byName[k])
					}
					p = q
					r.Probe("paragraph-built-with-Set")
				} else {
					r.Violate("C08/paragraph-helpers", "Set", "Set(name, value) for %d distinct names gave Order %v Values %v", len(p.Order), q.Order, q.Values)
				}
			case 2:
				// built as first-half.Update(second-half)
				h := len(fs) / 2
				a := control.Paragraph{Values: map[string]string{}}
				b := control.Paragraph{Values: map[string]string{}}
				for i, f := range fs {
					if i < h {
						a.Set(f.Name, f.Value)
					} else {
						b.Set(f.Name, f.Value)
					}
				}
				u := a.Update(b)
				if fmt.Sprint(u.Order) != fmt.Sprint(p.Order) || fmt.Sprint(u.Values) != fmt.Sprint(p.Values) {
					r.Violate("C08/paragraph-helpers", "Update", "a.Update(b) of disjoint halves gave Order %v, want %v", u.Order, p.Order)
				} else {
					p = u
					r.Probe("paragraph-built-with-Update")
				}
			}
			paras = append(paras, p)
			expect = append(expect, fs)
		}
	}
	if len(paras) >= 3 {
		r.Probe("three-or-more-paragraphs")
	}
	r.Event("workload", api, fmt.Sprintf("paras=%d docfirst=%v faulty=%v", len(paras), docFirst, faulty))

	// fault-free reference output (the sink may be handed in as a standard concrete type)
	w0 := simio.NewWriter(r, "sink0")
	var w0T io.Writer = w0
	flush0 := func() error { return nil }
	if !faulty {
		// (the fault-injecting configurations place their faults by the write
		// calls the library itself makes on the reference sink)
		w0T, flush0 = typedWriter(r, w0)
	}
	var err error
	task := r.Solo("writer:"+api, func() {
		if err = writeBody(api, paras, w0T); err == nil {
			err = flush0()
		}
	})
	if taskTrouble(r, "C08", api, task) {
		return
	}
	if err != nil {
		r.Violate("C08/write-error", api, "writing to a healthy sink failed: %v", err)
		return
	}
	if msg := scanWritten(w0.Buf, len(paras)); msg != "" {
		r.Violate("C08/blank-line-in-paragraph", api, "%s\nwritten=%q", msg, clip(string(w0.Buf), 400))
	}

	if faulty {
		r.Stats["config.faulty"]++
		if len(w0.Buf) == 0 {
			return
		}
		if api == "Encoder" && !docFirst && t.Bool(1, 2, "fault.transient") {
			c08Retry(r, paras, expect, w0)
			return
		}
		k := t.Draw(len(w0.Buf), "faultpos")
		kind := t.Draw(3, "fault.kind")
		wf := simio.NewWriter(r, "sinkF")
		switch kind {
		case 0:
			wf.FailAt(k, nil, true)
		case 1:
			wf.FailAt(k, simio.ErrNoSpace, false)
		case 2:
			wf.FailAt(k, simio.ErrIO, false)
		}
		err, task := writeParas(r, api, paras, wf)
		if taskTrouble(r, "C08", api+"/faulty-sink", task) {
			return
		}
		if !wf.Fired {
			r.Violate("C08/harness-fault-did-not-fire", api, "planned sink fault at %d of %d did not fire", k, len(w0.Buf))
			return
		}
		if err == nil {
			r.Violate("C08/write-error-swallowed", api, "sink failed after %d of %d bytes but %s returned nil", k, len(w0.Buf), api)
		}
		if !strings.HasPrefix(string(w0.Buf), string(wf.Buf)) {
			r.Violate("C08/faulty-sink-not-a-prefix", api, "bytes accepted by the failing sink are not a prefix of the fault-free output")
		}
		return
	}
	r.Stats["config.faultfree"]++

	// cycles: read what was written, compare, write again
	cycles := t.Range(1, 4, "c08.cycles")
	if cycles >= 3 {
		r.Probe("three-or-more-cycles")
	}
	prev := w0.Buf
	cur := paras
	for c := 1; c <= cycles; c++ {
		transientRead := len(prev) > 0 && t.Bool(1, 8, "c08.readfault")
		if transientRead {
			// the source fails ONCE while the written form is read back: an error
			// is fine, silently different content is not
			c08ReadFaultAt = t.Draw(len(prev), "c08.readfaultpos")
			r.Probe("transient-read-fault-while-reading-back")
		}
		got, err, task := readParas(r, prev)
		if taskTrouble(r, "C08", "read", task) {
			return
		}
		if err != nil && transientRead {
			return
		}
		if err != nil {
			r.Violate("C08/reread-error", api, "cycle %d: reading back what %s wrote failed: %v\nwritten=%q", c, api, err, clip(string(prev), 400))
			return
		}
		if len(got) != len(paras) {
			r.Violate("C08/paragraph-count", api, "cycle %d: wrote %d paragraphs, read back %d\nwritten=%q", c, len(paras), len(got), clip(string(prev), 400))
			return
		}
		for i := range got {
			if kind, msg := paraInvariant(&got[i]); kind != "" {
				r.Violate("C08/paragraph-invariant", kind, "%s", msg)
			}
			if len(got[i].Order) != len(expect[i]) {
				r.Violate("C08/roundtrip-mismatch", "field-list", "cycle %d paragraph %d: fields %q want %d", c, i, got[i].Order, len(expect[i]))
				continue
			}
			for j, f := range expect[i] {
				if got[i].Order[j] != f.Name {
					r.Violate("C08/roundtrip-mismatch", "field-order", "cycle %d paragraph %d: field %d is %q want %q", c, i, j, got[i].Order[j], f.Name)
					break
				}
				if a := strip1(got[i].Values[f.Name]); a != strip1(f.Expect) {
					key := f.Shape
					if docFirst {
						if k := lossyShape(model[i].get(f.Name)); k != "" {
							key = "reader-produced/" + k
						}
					}
					r.Violate("C08/roundtrip-mismatch", key, "cycle %d field %q (%s): stored %q, written and read back as %q\nwritten=%q", c, f.Name, f.Shape, clip(f.Value, 120), clip(got[i].Values[f.Name], 120), clip(string(prev), 300))
				}
			}
		}
		// write again what was read
		w := simio.NewWriter(r, fmt.Sprintf("sink%d", c))
		err, task = writeParas(r, api, got, w)
		if taskTrouble(r, "C08", api, task) {
			return
		}
		if err != nil {
			r.Violate("C08/write-error", api, "cycle %d: %v", c, err)
			return
		}
		if msg := scanWritten(w.Buf, len(got)); msg != "" {
			r.Violate("C08/blank-line-in-paragraph", api+"/cycle", "cycle %d: %s\nwritten=%q", c, msg, clip(string(w.Buf), 400))
		}
		// from the first written form that came out of the reader on, the bytes
		// must not change any more
		if c >= 2 || docFirst {
			if string(w.Buf) != string(prev) {
				cls := "C08/not-a-fixpoint"
				if len(w.Buf) > len(prev) {
					cls = "C08/document-grows"
				}
				key := api
				if docFirst {
					for i := range model {
						for j := range model[i].Fields {
							if k := lossyShape(&model[i].Fields[j]); k != "" && key == api {
								key = "reader-produced/" + k
							}
						}
					}
				}
				r.Violate(cls, key, "cycle %d: document changed between two consecutive written forms (%d -> %d bytes):\n%q\nvs\n%q", c, len(prev), len(w.Buf), clip(string(prev), 300), clip(string(w.Buf), 300))
			}
		}
		prev = w.Buf
		cur = got
	}
	_ = cur
}

func init() {
	register(&Prop{
		ID: "C08", Level: "exploration", Variant: "N", Design: "DESIGN.md §5 C08",
		Rule:      "Each run drives a document store (library writer -> simulated sink -> stored bytes -> simulated source -> library reader) through 1..4 write/read cycles. Workloads: paragraphs whose values are line sequences (single line, empty, multi-line with runs of 1..4 empty lines, indented lines, leading multi-line marker, trailing newline present or absent) written through Paragraph.WriteTo, an Encoder used repeatedly, or Marshal of a slice; and documents from the C07 generator that are read first and then written. The fault-injecting third injects a short write, ENOSPC or EIO at byte k of the sink.",
		Run:       runC08,
		QuickRuns: 400000, QuickSecs: 30, ThoroughRuns: 6_000_000, ThoroughSecs: 900,
		Components: map[string]interface{}{
			"real": []string{"pault.ag/go/debian/control (Paragraph.WriteTo, Encoder.Encode, Marshal, NewParagraphReader, All)"},
			"stub": []string{"simio.Writer (sink: short write, ENOSPC, EIO)", "simio.Reader (source: delivery schedule)"},
		},
		Assumptions: []string{"values are compared after removing one trailing newline (the statement's equality) and, for values built with the library's leading-newline multi-line marker, the marker", "lines that are exactly '.', blanks around a first line, and field names with ':' or leading '#' are outside the text format and not generated"},
	})
	propProbes["C08"] = []string{"encoder-sequence-with-paragraphs-that-have-no-field", "several-paragraphs-derived-from-one-base", "paragraph-built-with-Set", "paragraph-built-with-Update", "several-callers-writing-at-the-same-time", "stores-read-back-by-readers-alive-at-the-same-time", "line-longer-than-4096-bytes", "transient-read-fault-while-reading-back", "encode-retried-after-transient-write-error", "encoder-mixes-structs-and-slices", "single-line-with-trailing-newline", "multi-line-with-trailing-newline", "two-empty-lines", "three-empty-lines", "four-empty-lines", "leading-marker", "three-or-more-paragraphs", "three-or-more-cycles"}
}
