package main

// Models and renderers of the typed Debian documents (.dsc, .changes,
// debian/control, Packages, Sources) in the layout dpkg-dev / apt write them.
// Written from deb-src-control(5), deb-changes(5), dsc(5), Debian Policy §5.

import (
	"crypto/md5"
	"crypto/sha1"
	"crypto/sha256"
	"fmt"
	"strings"

	"verifsim/rt"
)

type mFile struct {
	Name     string
	Size     int
	Content  []byte
	Section  string // .changes only
	Priority string
}

func (f mFile) md5() string    { return fmt.Sprintf("%x", md5.Sum(f.Content)) }
func (f mFile) sha1() string   { return fmt.Sprintf("%x", sha1.Sum(f.Content)) }
func (f mFile) sha256() string { return fmt.Sprintf("%x", sha256.Sum256(f.Content)) }

var uploaderPool = []string{"Paul Tagliamonte <paultag@debian.org>", "Jörg Müller <jm@example.org>", "A B <a@b>", "山田太郎 <yamada@example.jp>", "Mary-Jane O'Neil <mj@example.com>", "x <x@x>"}

type listStyle int

const (
	oneLine          listStyle = iota
	folded                     // continuation lines after each separator
	foldedFirstEmpty           // "Field:\n a,\n b"
	wide                       // two blanks where one separates the elements
)

// genSpaceStyle: how a blank-separated list without an explicit delimiter tag
// (Architecture, Closes) is laid out: on one line, folded, or with runs of blanks
func genSpaceStyle(t *rt.Tape, label string) listStyle {
	return []listStyle{oneLine, folded, wide}[t.Weighted([]int{4, 1, 1}, label)]
}

func renderList(items []string, sep string, style listStyle) string {
	switch style {
	case folded:
		return strings.Join(items, strings.TrimRight(sep, " ")+"\n ")
	case foldedFirstEmpty:
		return "\n " + strings.Join(items, strings.TrimRight(sep, " ")+"\n ")
	case wide:
		return strings.Join(items, sep+" ")
	}
	return strings.Join(items, sep)
}

func genStyle(t *rt.Tape, label string) listStyle {
	return listStyle(t.Weighted([]int{3, 2, 1}, label))
}

type docWriter struct {
	sb strings.Builder
	// commentInFold: a comment line is put between two continuation lines of
	// every folded value (legal in debian/control: a commented-out list entry
	// does not end the logical line)
	commentInFold bool
}

func (w *docWriter) f(k, v string) {
	if v == "" {
		return
	}
	if w.commentInFold {
		if i := strings.Index(v[1:], "\n "); i >= 0 {
			i++
			v = v[:i] + "\n# commented-out-entry (>= 1:2.0)," + v[i:]
		}
	}
	if strings.HasPrefix(v, "\n") {
		w.sb.WriteString(k + ":" + v + "\n")
	} else {
		w.sb.WriteString(k + ": " + v + "\n")
	}
}
func (w *docWriter) files(k string, fs []mFile, hash func(mFile) string, changes bool) {
	if len(fs) == 0 {
		return
	}
	w.sb.WriteString(k + ":\n")
	for _, f := range fs {
		if changes {
			fmt.Fprintf(&w.sb, " %s %d %s %s %s\n", hash(f), f.Size, f.Section, f.Priority, f.Name)
		} else {
			fmt.Fprintf(&w.sb, " %s %d %s\n", hash(f), f.Size, f.Name)
		}
	}
}
func (w *docWriter) String() string { return w.sb.String() }

func genFiles(t *rt.Tape, stem string, label string, lo int) []mFile {
	exts := []string{".orig.tar.gz", ".debian.tar.xz", ".dsc", "_amd64.deb", "_all.deb", ".orig-component.tar.bz2"}
	n := t.Range(lo, 4, label+".n")
	out := []mFile{}
	for i := 0; i < n; i++ {
		c := t.Sub(label + ".content").Bytes(t.Range(0, 40, label+".len"))
		out = append(out, mFile{Name: stem + exts[i], Size: len(c), Content: c, Section: []string{"devel", "libs", "non-free/net"}[t.Draw(3, label+".sec")], Priority: []string{"optional", "extra"}[t.Draw(2, label+".prio")]})
	}
	return out
}

func genSubset(t *rt.Tape, pool []string, lo, hi int, label string) []string {
	n := t.Range(lo, min(hi, len(pool)), label+".n")
	p := t.Perm(len(pool), label)
	out := []string{}
	for i := 0; i < n; i++ {
		out = append(out, pool[p[i]])
	}
	return out
}

func genArchList(t *rt.Tape, label string) []mArch {
	switch t.Weighted([]int{3, 2, 2, 2, 2}, label) {
	case 4: // names with one, two and three parts next to each other
		out := []mArch{}
		for _, i := range t.Perm(len(archStock), label+".pm")[:t.Range(2, 4, label+".nm")] {
			if archStock[i].Text != "any" && archStock[i].Text != "all" {
				out = append(out, archStock[i])
			}
		}
		if len(out) > 0 {
			return out
		}
		return []mArch{archStock[0]}
	case 0:
		return []mArch{archStock[4]} // any
	case 1:
		return []mArch{archStock[3]} // all
	case 2:
		return []mArch{archStock[4], archStock[3]} // any all
	}
	out := []mArch{}
	for _, i := range t.Perm(3, label+".p")[:t.Range(1, 3, label+".n")] {
		out = append(out, archStock[i])
	}
	return out
}

func archTexts(as []mArch) []string {
	out := []string{}
	for _, a := range as {
		out = append(out, a.Text)
	}
	return out
}

// ---------------------------------------------------------------------------
// .dsc

type mDSC struct {
	Format, Source      string
	Binaries            []string
	BinStyle            listStyle
	SpStyle             listStyle
	Archs               []mArch
	Version             mVersion
	Origin, Maintainer  string
	Uploaders           []string
	UplStyle            listStyle
	Homepage, Standards string
	BD, BDA, BDI        mDep
	DepFolded           bool
	Files               []mFile
	Extra               [][2]string
}

func genDSC(t *rt.Tape, label string, source string, binaries []string, deps depOpts) mDSC {
	d := mDSC{Format: []string{"3.0 (quilt)", "3.0 (native)", "1.0"}[t.Draw(3, label+".fmt")], Source: source, Binaries: binaries}
	d.BinStyle = genStyle(t, label+".binstyle")
	if d.BinStyle == foldedFirstEmpty {
		d.BinStyle = folded
	}
	d.Archs = genArchList(t, label+".archs")
	d.SpStyle = genSpaceStyle(t, label+".spstyle")
	d.Version = genVersion(t, label+".ver")
	if t.Bool(1, 4, label+".origin") {
		d.Origin = "debian"
	}
	d.Maintainer = uploaderPool[t.Draw(len(uploaderPool), label+".maint")]
	d.Uploaders = genSubset(t, uploaderPool, 0, 6, label+".upl")
	d.UplStyle = listStyle(t.Weighted([]int{3, 2}, label+".uplstyle"))
	if t.Bool(1, 2, label+".home") {
		d.Homepage = "https://example.org/" + source
	}
	if t.Bool(3, 4, label+".std") {
		d.Standards = []string{"4.6.2", "3.9.8", "4.1.0.1"}[t.Draw(3, label+".stdv")]
	}
	d.DepFolded = t.Bool(1, 2, label+".depfold")
	if t.Bool(3, 4, label+".hasbd") {
		d.BD = genDep(t, deps, label+".bd")
		if t.Bool(1, 24, label+".hugebd") {
			// dpkg-source writes Build-Depends as ONE physical line; with a few hundred
			// relations it passes 4 KiB (and other round buffer sizes).  The relations
			// drawn above stay at the END of the line, behind those boundaries.
			var pre mDep
			for i, n := 0, 120+t.Draw(200, label+".hugebd.n"); i < n; i++ {
				p := mPoss{Name: fmt.Sprintf("libext%d-dev", i)}
				switch i % 3 {
				case 0:
					p.Op, p.Ver = ">=", fmt.Sprintf("1:%d.0", i)
				case 1:
					p.Qual = &archStock[4] // :any
				}
				pre = append(pre, mRel{p})
			}
			d.BD = append(pre, d.BD...)
			d.DepFolded = false
		}
	}
	if t.Bool(1, 3, label+".hasbda") {
		d.BDA = genDep(t, deps, label+".bda")
	}
	if t.Bool(1, 3, label+".hasbdi") {
		d.BDI = genDep(t, deps, label+".bdi")
	}
	stem := source + "_" + strings.ReplaceAll(d.Version.Upstream, ":", "")
	d.Files = genFiles(t, stem, label+".files", 1)
	if t.Bool(1, 3, label+".extra") {
		d.Extra = append(d.Extra, [2]string{"X-Unknown", "value " + source})
	}
	return d
}

func (d mDSC) render() string {
	w := &docWriter{}
	w.f("Format", d.Format)
	w.f("Source", d.Source)
	w.f("Binary", renderList(d.Binaries, ", ", d.BinStyle))
	w.f("Architecture", renderList(archTexts(d.Archs), " ", d.SpStyle))
	w.f("Version", d.Version.Text)
	w.f("Origin", d.Origin)
	w.f("Maintainer", d.Maintainer)
	w.f("Uploaders", renderList(d.Uploaders, ", ", d.UplStyle))
	w.f("Homepage", d.Homepage)
	w.f("Standards-Version", d.Standards)
	if len(d.BD) > 0 {
		w.f("Build-Depends", d.BD.render(d.DepFolded))
	}
	if len(d.BDA) > 0 {
		w.f("Build-Depends-Arch", d.BDA.render(d.DepFolded))
	}
	if len(d.BDI) > 0 {
		w.f("Build-Depends-Indep", d.BDI.render(d.DepFolded))
	}
	for _, x := range d.Extra {
		w.f(x[0], x[1])
	}
	w.files("Checksums-Sha1", d.Files, mFile.sha1, false)
	w.files("Checksums-Sha256", d.Files, mFile.sha256, false)
	w.files("Files", d.Files, mFile.md5, false)
	return w.String()
}

// ---------------------------------------------------------------------------
// .changes

type mChanges struct {
	Format, Source                string
	Binaries                      []string
	BinStyle                      listStyle
	SpStyle                       listStyle
	Archs                         []mArch
	Version                       mVersion
	Origin, Distribution, Urgency string
	Maintainer, ChangedBy         string
	Closes                        []string
	ChangesLines                  []string
	Files                         []mFile
}

func genChanges(t *rt.Tape, label string) mChanges {
	c := mChanges{Format: "1.8", Source: genPkgName(t, label+".src")}
	c.Binaries = genSubset(t, []string{"libfoo1", "libfoo-dev", "foo-doc", "foo", "python3-foo"}, 1, 4, label+".bins")
	c.BinStyle = listStyle(t.Weighted([]int{3, 1}, label+".binstyle"))
	c.Archs = append([]mArch{{"source", "gnu", "linux", "source", true}}, genArchList(t, label+".archs")[:1]...)
	c.SpStyle = genSpaceStyle(t, label+".spstyle")
	c.Version = genVersion(t, label+".ver")
	c.Distribution = clDists[t.Draw(len(clDists), label+".dist")]
	c.Urgency = []string{"low", "medium", "high"}[t.Draw(3, label+".urg")]
	c.Maintainer = uploaderPool[t.Draw(len(uploaderPool), label+".maint")]
	c.ChangedBy = uploaderPool[t.Draw(len(uploaderPool), label+".cb")]
	for i, n := 0, t.Draw(3, label+".ncloses"); i < n; i++ {
		c.Closes = append(c.Closes, fmt.Sprint(100000+t.Draw(900000, label+".closes")))
	}
	c.ChangesLines = []string{fmt.Sprintf("%s (%s) %s; urgency=%s", c.Source, c.Version.Text, c.Distribution, c.Urgency), "", "  * " + genWords(t, 1, 5, label+".chg")}
	c.Files = genFiles(t, c.Source+"_"+c.Version.Upstream, label+".files", 1)
	return c
}

func (c mChanges) render() string {
	w := &docWriter{}
	w.f("Format", c.Format)
	w.f("Date", "Mon, 02 Jan 2006 15:04:05 +0000")
	w.f("Source", c.Source)
	w.f("Binary", renderList(c.Binaries, " ", c.BinStyle))
	w.f("Architecture", renderList(archTexts(c.Archs), " ", c.SpStyle))
	w.f("Version", c.Version.Text)
	w.f("Distribution", c.Distribution)
	w.f("Urgency", c.Urgency)
	w.f("Maintainer", c.Maintainer)
	w.f("Changed-By", c.ChangedBy)
	w.f("Closes", renderList(c.Closes, " ", c.SpStyle))
	w.sb.WriteString("Changes:\n")
	for _, l := range c.ChangesLines {
		if l == "" {
			w.sb.WriteString(" .\n")
		} else {
			w.sb.WriteString(" " + l + "\n")
		}
	}
	w.files("Checksums-Sha1", c.Files, mFile.sha1, false)
	w.files("Checksums-Sha256", c.Files, mFile.sha256, false)
	w.files("Files", c.Files, mFile.md5, true)
	return w.String()
}

// ---------------------------------------------------------------------------
// debian/control

type mSrcPara struct {
	Source, Maintainer, Priority, Section string
	Uploaders                             []string
	UplStyle                              listStyle
	BD, BDI, BC, BCI                      mDep
	DepFolded                             bool
}

type mBinPara struct {
	Package, Priority, Section                                                                   string
	Archs                                                                                        []mArch
	Essential                                                                                    *bool
	Synopsis                                                                                     string
	DescLines                                                                                    []string
	Depends, Recommends, Suggests, Enhances, PreDepends, Breaks, Conflicts, Replaces, BuiltUsing mDep
	DepFolded                                                                                    bool
}

type mControlFile struct {
	Src      mSrcPara
	Bins     []mBinPara
	Comments bool
	Seps     []int
}

func genControlFile(t *rt.Tape, label string) mControlFile {
	c := mControlFile{}
	o := depOpts{Substvars: true, Stages: true, MaxRels: 3}
	c.Src = mSrcPara{Source: genPkgName(t, label+".src"), Maintainer: uploaderPool[t.Draw(len(uploaderPool), label+".maint")]}
	c.Src.Uploaders = genSubset(t, uploaderPool, 0, 6, label+".upl")
	c.Src.UplStyle = genStyle(t, label+".uplstyle")
	if t.Bool(2, 3, label+".prio") {
		c.Src.Priority = "optional"
	}
	if t.Bool(2, 3, label+".sec") {
		c.Src.Section = "devel"
	}
	c.Src.DepFolded = t.Bool(1, 2, label+".fold")
	if t.Bool(3, 4, label+".bd") {
		c.Src.BD = genDep(t, o, label+".bdv")
	}
	if t.Bool(1, 3, label+".bdi") {
		c.Src.BDI = genDep(t, o, label+".bdiv")
	}
	if t.Bool(1, 4, label+".bc") {
		c.Src.BC = genDep(t, o, label+".bcv")
	}
	if t.Bool(1, 4, label+".bci") {
		c.Src.BCI = genDep(t, o, label+".bciv")
	}
	nb := t.Range(1, 4, label+".nbins")
	for i := 0; i < nb; i++ {
		b := mBinPara{Package: fmt.Sprintf("%s-bin%d", c.Src.Source, i), Archs: genArchList(t, label+".barch")}
		if t.Bool(1, 3, label+".bprio") {
			b.Priority = "extra"
		}
		if t.Bool(1, 3, label+".bsec") {
			b.Section = "libs"
		}
		if t.Bool(1, 3, label+".ess") {
			v := t.Bool(1, 2, label+".essv")
			b.Essential = &v
		}
		b.Synopsis = genWords(t, 1, 5, label+".syn")
		for j, n := 0, t.Draw(4, label+".ndesc"); j < n; j++ {
			if j > 0 && t.Bool(1, 4, label+".descempty") {
				b.DescLines = append(b.DescLines, "")
			} else {
				b.DescLines = append(b.DescLines, genWords(t, 1, 6, label+".dl"))
			}
		}
		b.DepFolded = t.Bool(1, 2, label+".bfold")
		for k, dst := range []*mDep{&b.Depends, &b.Recommends, &b.Suggests, &b.Enhances, &b.PreDepends, &b.Breaks, &b.Conflicts, &b.Replaces, &b.BuiltUsing} {
			if t.Bool([]int{3, 1, 1, 1, 1, 1, 1, 1, 1}[k], 5, label+".hasdep") {
				*dst = genDep(t, o, label+".bdep")
			}
		}
		c.Bins = append(c.Bins, b)
		c.Seps = append(c.Seps, t.Range(1, 2, label+".sep"))
	}
	c.Comments = t.Bool(1, 3, label+".comments")
	return c
}

func descValue(syn string, lines []string) string {
	if len(lines) == 0 {
		return syn
	}
	return syn + "\n" + strings.Join(lines, "\n") + "\n"
}

func writeDesc(w *docWriter, syn string, lines []string) {
	if syn == "" {
		return
	}
	w.sb.WriteString("Description: " + syn + "\n")
	for _, l := range lines {
		if l == "" {
			w.sb.WriteString(" .\n")
		} else {
			w.sb.WriteString(" " + l + "\n")
		}
	}
}

func (c mControlFile) render() string {
	w := &docWriter{commentInFold: c.Comments}
	if c.Comments {
		w.sb.WriteString("# generated\n")
	}
	w.f("Source", c.Src.Source)
	w.f("Section", c.Src.Section)
	w.f("Priority", c.Src.Priority)
	w.f("Maintainer", c.Src.Maintainer)
	w.f("Uploaders", renderList(c.Src.Uploaders, ", ", c.Src.UplStyle))
	for _, d := range []struct {
		k string
		d mDep
	}{{"Build-Depends", c.Src.BD}, {"Build-Depends-Indep", c.Src.BDI}, {"Build-Conflicts", c.Src.BC}, {"Build-Conflicts-Indep", c.Src.BCI}} {
		if len(d.d) > 0 {
			w.f(d.k, d.d.render(c.Src.DepFolded))
		}
	}
	for i, b := range c.Bins {
		for j := 0; j < c.Seps[i]; j++ {
			w.sb.WriteString("\n")
		}
		if c.Comments && i == 1 {
			w.sb.WriteString("# second binary\n")
		}
		w.f("Package", b.Package)
		w.f("Architecture", strings.Join(archTexts(b.Archs), " "))
		w.f("Section", b.Section)
		w.f("Priority", b.Priority)
		if b.Essential != nil {
			w.f("Essential", map[bool]string{true: "yes", false: "no"}[*b.Essential])
		}
		for _, d := range []struct {
			k string
			d mDep
		}{{"Depends", b.Depends}, {"Recommends", b.Recommends}, {"Suggests", b.Suggests}, {"Enhances", b.Enhances}, {"Pre-Depends", b.PreDepends}, {"Breaks", b.Breaks}, {"Conflicts", b.Conflicts}, {"Replaces", b.Replaces}, {"Built-Using", b.BuiltUsing}} {
			if len(d.d) > 0 {
				w.f(d.k, d.d.render(b.DepFolded))
			}
		}
		writeDesc(w, b.Synopsis, b.DescLines)
	}
	return w.String()
}

// ---------------------------------------------------------------------------
// Packages (binary index) and Sources (source index)

type mBinIndex struct {
	Package, Source, Maintainer, MultiArch, Homepage, DescMD5, Section, Priority, Filename string
	Version                                                                                mVersion
	InstalledSize, Size                                                                    int
	Arch                                                                                   mArch
	Synopsis                                                                               string
	DescLines                                                                              []string
	Tags                                                                                   []string
	TagStyle                                                                               listStyle
	MD5, SHA1, SHA256                                                                      string
	BuildIds                                                                               []string
	Depends, PreDepends, Conflicts, Breaks, Replaces, Suggests, BuiltUsing                 mDep
	SourceVersioned                                                                        bool
}

func genBinIndex(t *rt.Tape, label string, i int) mBinIndex {
	b := mBinIndex{Package: fmt.Sprintf("%s%d", genPkgName(t, label+".pkg"), i), Version: genVersion(t, label+".ver")}
	switch t.Draw(3, label+".srckind") {
	case 1:
		b.Source = genPkgName(t, label+".src")
	case 2:
		b.Source = genPkgName(t, label+".src") + " (" + genVersion(t, label+".srcver").Text + ")"
		b.SourceVersioned = true
	}
	b.InstalledSize, b.Size = t.Draw(900000, label+".isz"), t.Draw(90000000, label+".sz")
	b.Maintainer = uploaderPool[t.Draw(len(uploaderPool), label+".maint")]
	b.Arch = archStock[t.Draw(4, label+".arch")]
	if t.Bool(1, 3, label+".ma") {
		b.MultiArch = []string{"same", "foreign"}[t.Draw(2, label+".mav")]
	}
	b.Synopsis = genWords(t, 1, 5, label+".syn")
	if t.Bool(1, 3, label+".longdesc") {
		b.DescLines = []string{genWords(t, 1, 6, label+".dl"), "", genWords(t, 1, 6, label+".dl")}
	}
	b.Homepage = "https://example.org/" + b.Package
	b.DescMD5 = genFrom(t, "0123456789abcdef", 32, 32, label+".dmd5")
	b.Tags = genSubset(t, []string{"admin::config", "role::program", "implemented-in::c", "interface::commandline", "uitoolkit::gtk"}, 0, 4, label+".tags")
	b.TagStyle = listStyle(t.Weighted([]int{3, 1}, label+".tagstyle"))
	b.Section, b.Priority = "utils", "optional"
	b.Filename = "pool/main/" + b.Package[:1] + "/" + b.Package + "/" + b.Package + "_" + b.Version.Upstream + "_" + b.Arch.Text + ".deb"
	b.MD5, b.SHA1, b.SHA256 = genFrom(t, "0123456789abcdef", 32, 32, label+".md5"), genFrom(t, "0123456789abcdef", 40, 40, label+".sha1"), genFrom(t, "0123456789abcdef", 64, 64, label+".sha256")
	for j, n := 0, t.Draw(3, label+".nbid"); j < n; j++ {
		b.BuildIds = append(b.BuildIds, genFrom(t, "0123456789abcdef", 40, 40, label+".bid"))
	}
	o := depOpts{MaxRels: 3}
	for k, dst := range []*mDep{&b.Depends, &b.PreDepends, &b.Conflicts, &b.Breaks, &b.Replaces, &b.Suggests, &b.BuiltUsing} {
		if t.Bool([]int{3, 1, 1, 1, 1, 1, 1}[k], 5, label+".hasdep") {
			*dst = genDep(t, o, label+".dep")
		}
	}
	return b
}

func (b mBinIndex) render() string {
	w := &docWriter{}
	w.f("Package", b.Package)
	w.f("Source", b.Source)
	w.f("Version", b.Version.Text)
	w.f("Installed-Size", fmt.Sprint(b.InstalledSize))
	w.f("Maintainer", b.Maintainer)
	w.f("Architecture", b.Arch.Text)
	w.f("Multi-Arch", b.MultiArch)
	for _, d := range []struct {
		k string
		d mDep
	}{{"Depends", b.Depends}, {"Pre-Depends", b.PreDepends}, {"Conflicts", b.Conflicts}, {"Breaks", b.Breaks}, {"Replaces", b.Replaces}, {"Suggests", b.Suggests}, {"Built-Using", b.BuiltUsing}} {
		if len(d.d) > 0 {
			w.f(d.k, d.d.render(false))
		}
	}
	writeDesc(w, b.Synopsis, b.DescLines)
	w.f("Homepage", b.Homepage)
	w.f("Description-md5", b.DescMD5)
	w.f("Tags", renderList(b.Tags, ", ", b.TagStyle))
	w.f("Section", b.Section)
	w.f("Priority", b.Priority)
	w.f("Filename", b.Filename)
	w.f("Size", fmt.Sprint(b.Size))
	w.f("MD5sum", b.MD5)
	w.f("SHA1", b.SHA1)
	w.f("SHA256", b.SHA256)
	w.f("Build-Ids", strings.Join(b.BuildIds, " "))
	return w.String()
}

type mSrcIndex struct {
	Package                                string
	Binaries                               []string
	BinStyle                               listStyle
	SpStyle                                listStyle
	Version                                mVersion
	Maintainer, Uploaders                  string
	Archs                                  []mArch
	Standards, Format                      string
	Files                                  []mFile
	VcsBrowser, VcsGit                     string
	Homepage, Directory, Priority, Section string
	BD, BDA, BDI                           mDep
}

func genSrcIndex(t *rt.Tape, label string, i int) mSrcIndex {
	s := mSrcIndex{Package: fmt.Sprintf("%s%d", genPkgName(t, label+".pkg"), i), Version: genVersion(t, label+".ver")}
	s.Binaries = genSubset(t, []string{"libfoo1", "libfoo-dev", "foo-doc", "foo", "python3-foo"}, 1, 4, label+".bins")
	s.BinStyle = listStyle(t.Weighted([]int{3, 2}, label+".binstyle"))
	s.Maintainer = uploaderPool[t.Draw(len(uploaderPool), label+".maint")]
	s.Uploaders = strings.Join(genSubset(t, uploaderPool, 0, 2, label+".upl"), ", ")
	s.Archs = genArchList(t, label+".archs")
	s.SpStyle = genSpaceStyle(t, label+".spstyle")
	s.Standards, s.Format = "4.6.2", "3.0 (quilt)"
	s.Files = genFiles(t, s.Package+"_"+s.Version.Upstream, label+".files", 1)
	s.VcsBrowser, s.VcsGit = "https://salsa.debian.org/x/"+s.Package, "https://salsa.debian.org/x/"+s.Package+".git"
	s.Homepage, s.Directory, s.Priority, s.Section = "https://example.org/"+s.Package, "pool/main/"+s.Package[:1]+"/"+s.Package, "optional", "devel"
	o := depOpts{MaxRels: 3, Stages: true}
	if t.Bool(3, 4, label+".bd") {
		s.BD = genDep(t, o, label+".bdv")
	}
	if t.Bool(1, 3, label+".bda") {
		s.BDA = genDep(t, o, label+".bdav")
	}
	if t.Bool(1, 3, label+".bdi") {
		s.BDI = genDep(t, o, label+".bdiv")
	}
	return s
}

func (s mSrcIndex) render() string {
	w := &docWriter{}
	w.f("Package", s.Package)
	w.f("Binary", renderList(s.Binaries, ", ", s.BinStyle))
	w.f("Version", s.Version.Text)
	w.f("Maintainer", s.Maintainer)
	w.f("Uploaders", s.Uploaders)
	if len(s.BD) > 0 {
		w.f("Build-Depends", s.BD.render(false))
	}
	if len(s.BDA) > 0 {
		w.f("Build-Depends-Arch", s.BDA.render(false))
	}
	if len(s.BDI) > 0 {
		w.f("Build-Depends-Indep", s.BDI.render(false))
	}
	w.f("Architecture", renderList(archTexts(s.Archs), " ", s.SpStyle))
	w.f("Standards-Version", s.Standards)
	w.f("Format", s.Format)
	w.files("Files", s.Files, mFile.md5, false)
	w.f("Vcs-Browser", s.VcsBrowser)
	w.f("Vcs-Git", s.VcsGit)
	w.files("Checksums-Sha1", s.Files, mFile.sha1, false)
	w.files("Checksums-Sha256", s.Files, mFile.sha256, false)
	w.f("Homepage", s.Homepage)
	w.f("Directory", s.Directory)
	w.f("Priority", s.Priority)
	w.f("Section", s.Section)
	return w.String()
}
