package main

// C12  Checksums computed and verified by the library are the true digests.
//
// Simulated: byte source -> hashing reader -> consumer, and producer ->
// hashing writer -> sink, with tape-chosen splitting on both sides (the
// caller's buffer / chunk sizes, the simulated reader's delivery schedule
// including (n,EOF), the sink's acceptance).  Checksum entries reach
// Verifier() through the control reader over a simulated stream.

import (
	"bytes"
	"crypto/md5"
	"crypto/sha1"
	"crypto/sha256"
	"crypto/sha512"
	"encoding/hex"
	"fmt"
	"io"
	"strings"

	"pault.ag/go/debian/control"
	"pault.ag/go/debian/hashio"
	"verifsim/rt"
	"verifsim/simio"
)

var c12Algs = []string{"md5", "sha1", "sha256", "sha512"}

func trueDigest(alg string, data []byte) []byte {
	switch alg {
	case "md5":
		s := md5.Sum(data)
		return s[:]
	case "sha1":
		s := sha1.Sum(data)
		return s[:]
	case "sha256":
		s := sha256.Sum256(data)
		return s[:]
	case "sha512":
		s := sha512.Sum512(data)
		return s[:]
	}
	return nil
}

var chunkSizes = []int{0, 1, 2, 3, 7, 13, 64, 509, 4096, 65536}

func genData(t *rt.Tape, label string) []byte {
	var n int
	switch t.Weighted([]int{1, 6, 3, 1}, label+".sizeclass") {
	case 0:
		n = 0
	case 1:
		n = t.Range(1, 200, label+".n")
	case 2:
		n = t.Range(201, 5000, label+".n")
	case 3:
		n = t.Range(5001, 70000, label+".n")
	}
	return t.Sub(label + ".bytes").Bytes(n)
}

// c12Earlier remembers digests reported earlier in the run: a reported digest
// must stay what it was when later bytes pass through.
type c12Earlier struct {
	sum  []byte
	want []byte
	alg  string
	at   int
}

var c12Kept []c12Earlier

func checkHashers(r *rt.Run, where string, algs []string, hs []*hashio.Hasher, sofar []byte) {
	for _, e := range c12Kept {
		if !bytes.Equal(e.sum, e.want) {
			r.Violate("C12/reported-digest-changed-later", where+"/"+e.alg, "the %s digest reported after %d bytes was %x; after more bytes passed through the same slice reads %x", e.alg, e.at, e.want, e.sum)
			c12Kept = nil
			break
		}
	}
	if len(c12Kept) > 64 {
		c12Kept = c12Kept[:0]
	}
	for i, h := range hs {
		if len(sofar) < 2000 {
			s := h.Sum(nil)
			c12Kept = append(c12Kept, c12Earlier{sum: s, want: append([]byte(nil), trueDigest(algs[i], sofar)...), alg: algs[i], at: len(sofar)})
		}
		if h.Name() != algs[i] {
			r.Violate("C12/hasher-name", where, "hasher %d is %q want %q", i, h.Name(), algs[i])
		}
		if h.Size() != int64(len(sofar)) {
			r.Violate("C12/size-mismatch", where+"/"+algs[i], "Size()=%d after %d bytes passed through", h.Size(), len(sofar))
		}
		if got, want := h.Sum(nil), trueDigest(algs[i], sofar); !bytes.Equal(got, want) {
			r.Violate("C12/digest-mismatch", where+"/"+algs[i], "%s digest after %d bytes is %x want %x", algs[i], len(sofar), got, want)
		}
		// Sum appends to the caller's slice and leaves the prefix alone (hash.Hash contract)
		pre := []byte{0xde, 0xad, byte(len(sofar))}
		if got, want := h.Sum(append([]byte(nil), pre...)), append(append([]byte(nil), pre...), trueDigest(algs[i], sofar)...); !bytes.Equal(got, want) {
			r.Violate("C12/digest-mismatch", where+"/"+algs[i]+"/sum-appends", "Sum(prefix) after %d bytes is %x want %x", len(sofar), got, want)
		}
		// the algorithm table itself: a fresh hash by that name digests the same bytes to the same value
		if len(sofar) <= 600 {
			if fh, err := hashio.GetHash(algs[i]); err != nil {
				r.Violate("C12/constructor-error", where+"/GetHash", "%v", err)
			} else {
				fh.Write(sofar)
				if got, want := fh.Sum(nil), trueDigest(algs[i], sofar); !bytes.Equal(got, want) {
					r.Violate("C12/digest-mismatch", where+"/"+algs[i]+"/GetHash", "GetHash(%q) digests %d bytes to %x want %x", algs[i], len(sofar), got, want)
				}
			}
		}
	}
}

func c12Stream(r *rt.Run) {
	t := r.T
	c12Kept = nil
	data := genData(t, "c12.data")
	multi := t.Bool(1, 2, "c12.multi")
	var algs []string
	if multi {
		for i, n := 0, t.Range(1, 5, "c12.nalgs"); i < n; i++ {
			algs = append(algs, c12Algs[t.Draw(4, "c12.alg")])
		}
	} else {
		algs = []string{c12Algs[t.Draw(4, "c12.alg")]}
	}
	dir := []string{"writer", "reader"}[t.Draw(2, "c12.dir")]
	faulty := t.Bool(1, 4, "config.faulty")
	where := dir
	if multi {
		where += "s"
	}
	r.Event("workload", where, fmt.Sprintf("len=%d algs=%v faulty=%v", len(data), algs, faulty))
	checkEvery := len(data) <= 600
	if dir == "writer" {
		sink := simio.NewWriter(r, "sink")
		if faulty && len(data) > 0 {
			k := t.Draw(len(data), "faultpos")
			switch t.Draw(3, "fault.kind") {
			case 0:
				sink.FailAt(k, nil, true)
			case 1:
				sink.FailAt(k, simio.ErrNoSpace, false)
			default:
				sink.FailAt(k, simio.ErrIO, false)
			}
		}
		var w io.Writer
		var hs []*hashio.Hasher
		var err error
		var sinkT io.Writer = sink
		flush := func() error { return nil }
		if !faulty {
			sinkT, flush = typedWriter(r, sink)
		}
		if multi {
			w, hs, err = hashio.NewHasherWriters(algs, sinkT)
		} else {
			var h *hashio.Hasher
			w, h, err = hashio.NewHasherWriter(algs[0], sinkT)
			hs = []*hashio.Hasher{h}
		}
		if err != nil {
			r.Violate("C12/constructor-error", where, "%v", err)
			return
		}
		var werr error
		task := r.Solo("producer", func() {
			pos := 0
			for pos < len(data) || (pos == 0 && len(data) == 0) {
				n := chunkSizes[t.Draw(len(chunkSizes), "c12.chunk")]
				if pos+n > len(data) {
					n = len(data) - pos
				}
				if n == 0 {
					r.Probe("zero-length-write")
				}
				m, e := w.Write(data[pos : pos+n])
				if e != nil {
					werr = e
					return
				}
				if m != n {
					r.Violate("C12/short-write-without-error", where, "Write returned %d of %d with nil error", m, n)
					return
				}
				pos += n
				if checkEvery {
					checkHashers(r, where+"/prefix", algs, hs, data[:pos])
				}
				if len(data) == 0 {
					break
				}
			}
		})
		if taskTrouble(r, "C12", where, task) {
			return
		}
		if ferr := flush(); ferr != nil && werr == nil {
			werr = ferr
		}
		if sink.Fired {
			if werr == nil {
				r.Violate("C12/sink-error-swallowed", where, "the sink failed but the hashing writer reported no error")
			}
			return
		}
		if werr != nil {
			r.Violate("C12/write-error", where, "healthy sink but Write failed: %v", werr)
			return
		}
		if !bytes.Equal(sink.Buf, data) {
			r.Violate("C12/bytes-altered", where, "sink received %d bytes that differ from the %d written", len(sink.Buf), len(data))
		}
		checkHashers(r, where, algs, hs, data)
		return
	}
	// reader
	src := simio.NewReader(r, "source", data)
	if faulty {
		src.FailAt(t.Draw(len(data)+1, "faultpos"))
	}
	var rd io.Reader
	var hs []*hashio.Hasher
	var err error
	var srcT io.Reader = src
	if !faulty {
		srcT = typedReader(r, "source", data, src)
	}
	if multi {
		rd, hs, err = hashio.NewHasherReaders(algs, srcT)
	} else {
		var h *hashio.Hasher
		rd, h, err = hashio.NewHasherReader(algs[0], srcT)
		hs = []*hashio.Hasher{h}
	}
	if err != nil {
		r.Violate("C12/constructor-error", where, "%v", err)
		return
	}
	var out []byte
	var rerr error
	// how the consumer takes the bytes: Read calls (default), byte by byte through
	// ReadByte when the hashing reader offers it, or io.Copy into a destination
	// that accepts part of one block, fails once, and is then written to again
	consume := 0
	if !faulty {
		consume = t.Weighted([]int{4, 1, 1}, "c12.consume")
	}
	if consume == 1 {
		if _, ok := rd.(io.ByteReader); !ok {
			consume = 0
		}
	}
	if consume == 2 && len(data) > 1 {
		dst := simio.NewWriter(r, "destination")
		dst.PartialOnceAt(1+t.Draw(len(data)-1, "c12.dstfail"), simio.ErrNoSpace)
		var copied int64
		var cerr error
		task := r.Solo("consumer", func() {
			for attempt := 0; attempt < 4; attempt++ {
				n, e := io.Copy(dst, rd)
				copied += n
				cerr = e
				if e == nil {
					return
				}
			}
		})
		if taskTrouble(r, "C12", where, task) {
			return
		}
		r.Probe("copied-into-a-destination-that-failed-once")
		if cerr != nil {
			r.Violate("C12/read-error", where+"/copy", "copying on after the destination's one failure did not finish: %v", cerr)
			return
		}
		// every source byte went through the hashing reader exactly once (what the
		// destination dropped in its failed call is the consumer's loss, not the hashers')
		checkHashers(r, where+"/copy-resumed", algs, hs, data)
		return
	}
	task := r.Solo("consumer", func() {
		if consume == 1 {
			br := rd.(io.ByteReader)
			r.Probe("consumed-through-ReadByte")
			for i := 0; i < 10_000_000; i++ {
				b, e := br.ReadByte()
				if e == io.EOF {
					return
				}
				if e != nil {
					rerr = e
					return
				}
				out = append(out, b)
			}
		}
		for i := 0; i < 10_000_000; i++ {
			n := chunkSizes[1+t.Draw(len(chunkSizes)-1, "c12.buf")]
			buf := make([]byte, n)
			m, e := rd.Read(buf)
			out = append(out, buf[:m]...)
			if m > 0 && e == io.EOF {
				r.Probe("data-and-eof-in-one-read")
			}
			if checkEvery || e != nil {
				checkHashers(r, where+"/prefix", algs, hs, out)
			}
			if e == io.EOF {
				return
			}
			if e != nil {
				rerr = e
				return
			}
		}
	})
	if taskTrouble(r, "C12", where, task) {
		return
	}
	if faulty {
		if rerr == nil {
			r.Violate("C12/source-error-swallowed", where, "the source failed with EIO but the hashing reader reported a clean end after %d bytes", len(out))
		}
		if !bytes.HasPrefix(data, out) {
			r.Violate("C12/bytes-altered", where+"/eio", "bytes handed out before the error are not a prefix of the source")
		}
		return
	}
	if rerr != nil {
		r.Violate("C12/read-error", where, "healthy source but Read failed: %v", rerr)
		return
	}
	if !bytes.Equal(out, data) {
		r.Violate("C12/bytes-altered", where, "consumer received %d bytes that differ from the %d in the source", len(out), len(data))
	}
	checkHashers(r, where, algs, hs, data)
}

// --- verifier -------------------------------------------------------------

type c12Entry struct {
	Field    string // Checksums-Sha256 | Checksums-Sha512
	Alg      string
	Content  []byte
	Recorded string
	Kind     string
	Name     string
	Accept   bool
	HexOK    bool
}

type csDoc struct {
	ChecksumsSha256 []control.SHA256FileHash `control:"Checksums-Sha256" delim:"\n" strip:"\n\r\t "`
	ChecksumsSha512 []control.SHA512FileHash `control:"Checksums-Sha512" delim:"\n" strip:"\n\r\t "`
}

type bestDoc struct {
	Package string
	control.BestChecksums
}

var c12RecKinds = []string{"equal", "equal-uppercase", "nibble-off", "truncated", "other-algorithm", "not-hex", "odd-length", "extended"}

func genC12Entries(t *rt.Tape, field, alg string, n int) []c12Entry {
	var out []c12Entry
	for i := 0; i < n; i++ {
		e := c12Entry{Field: field, Alg: alg, Name: fmt.Sprintf("%s_%d.tar.gz", genFrom(t, lowerAlnum, 1, 6, "c12.fname"), i)}
		e.Content = t.Sub("c12.content").Bytes(t.Range(0, 300, "c12.clen"))
		truth := hex.EncodeToString(trueDigest(alg, e.Content))
		e.Kind = c12RecKinds[t.Weighted([]int{6, 1, 3, 2, 2, 1, 1, 2}, "c12.reckind")]
		e.HexOK = true
		switch e.Kind {
		case "equal":
			e.Recorded, e.Accept = truth, true
		case "equal-uppercase":
			e.Recorded, e.Accept = strings.ToUpper(truth), true
		case "nibble-off":
			p := t.Draw(len(truth), "c12.nibble")
			c := truth[p]
			nc := byte('0')
			if c == '0' {
				nc = 'f'
			}
			e.Recorded = truth[:p] + string(nc) + truth[p+1:]
		case "truncated":
			// any shorter even number of digits, down to two
			e.Recorded = truth[:2*(1+t.Draw(len(truth)/2-1, "c12.trunc"))]
		case "extended":
			// the true digest followed by further digits is not the digest
			e.Recorded = truth + hex.EncodeToString(t.Sub("c12.extra").Bytes(1+t.Draw(32, "c12.nextra")))
		case "other-algorithm":
			other := "sha512"
			if alg == "sha512" {
				other = "sha256"
			}
			e.Recorded = hex.EncodeToString(trueDigest(other, e.Content))
		case "not-hex":
			e.Recorded = "zz" + truth[2:]
			e.HexOK = false
		case "odd-length":
			e.Recorded = truth[:len(truth)-1]
			e.HexOK = false
		}
		out = append(out, e)
	}
	return out
}

func renderChecksumField(sb *strings.Builder, name string, es []c12Entry) {
	if len(es) == 0 {
		return
	}
	sb.WriteString(name + ":\n")
	for _, e := range es {
		fmt.Fprintf(sb, " %s %d %s\n", e.Recorded, len(e.Content), e.Name)
	}
}

// verifyEntry streams the content through the entry's verifier and compares
// the verdict with the model.
func verifyEntry(r *rt.Run, via string, fh control.FileHash, e c12Entry) {
	t := r.T
	if fh.Hash != e.Recorded || fh.Filename != e.Name || fh.Size != int64(len(e.Content)) {
		r.Violate("C12/entry-mismatch", via, "parsed entry {%s %d %s} differs from written {%s %d %s}", clip(fh.Hash, 20), fh.Size, fh.Filename, clip(e.Recorded, 20), len(e.Content), e.Name)
		return
	}
	if fh.Algorithm != "sha256" && fh.Algorithm != "sha512" {
		r.Violate("C12/entry-algorithm", via, "entry of field %s carries algorithm %q (would reach log.Fatalf in Verifier)", e.Field, fh.Algorithm)
		return
	}
	algTag := fh.Algorithm
	v, err := fh.Verifier()
	accepted := false
	if err == nil {
		werr := error(nil)
		pos := 0
		for pos < len(e.Content) {
			n := chunkSizes[1+t.Draw(6, "c12.vchunk")]
			if pos+n > len(e.Content) {
				n = len(e.Content) - pos
			}
			if _, werr = v.Write(e.Content[pos : pos+n]); werr != nil {
				break
			}
			pos += n
		}
		// the caller re-uses its entry variable before Close (as a loop over
		// entries does): the verifier must keep judging by the entry it was made from
		fh.Hash, fh.Algorithm, fh.Filename = strings.Repeat("0", len(fh.Hash)), "sha256", "something-else"
		accepted = werr == nil && v.Close() == nil
	} else if e.HexOK {
		r.Violate("C12/verifier-constructor-error", via+"/"+e.Kind, "Verifier() failed for a hex hash: %v", err)
		return
	}
	r.Stats["verifier."+e.Kind]++
	if accepted != e.Accept {
		cls := "C12/verifier-accepts-wrong-stream"
		if e.Accept {
			cls = "C12/verifier-rejects-true-stream"
		}
		r.Violate(cls, via+"/"+e.Field+"/"+e.Kind, "entry of field %s (algorithm tag %q), recorded hash kind %q: verifier accepted=%v, want %v", e.Field, algTag, e.Kind, accepted, e.Accept)
	}
}

func c12Verifier(r *rt.Run) {
	t := r.T
	mode := t.Draw(3, "c12.vmode") // 0: explicit typed fields, 1: BestChecksums, 2: FileHashFromHasher
	switch mode {
	case 0, 1:
		has256 := t.Bool(2, 3, "c12.has256")
		has512 := t.Bool(2, 3, "c12.has512") || !has256
		var e256, e512 []c12Entry
		if has256 {
			e256 = genC12Entries(t, "Checksums-Sha256", "sha256", t.Range(1, 3, "c12.n256"))
		}
		if has512 {
			e512 = genC12Entries(t, "Checksums-Sha512", "sha512", t.Range(1, 3, "c12.n512"))
		}
		var sb strings.Builder
		sb.WriteString("Package: foo\n")
		if t.Bool(1, 2, "c12.order") {
			renderChecksumField(&sb, "Checksums-Sha512", e512)
			renderChecksumField(&sb, "Checksums-Sha256", e256)
		} else {
			renderChecksumField(&sb, "Checksums-Sha256", e256)
			renderChecksumField(&sb, "Checksums-Sha512", e512)
		}
		rd := simio.NewReader(r, "control", []byte(sb.String()))
		if mode == 0 {
			var d csDoc
			var err error
			task := r.Solo("unmarshal", func() { err = control.Unmarshal(&d, rd) })
			if taskTrouble(r, "C12", "typed", task) {
				return
			}
			if err != nil {
				r.Violate("C12/unmarshal-error", "typed", "%v\n%s", err, sb.String())
				return
			}
			if len(d.ChecksumsSha256) != len(e256) || len(d.ChecksumsSha512) != len(e512) {
				r.Violate("C12/entry-count", "typed", "got %d/%d entries want %d/%d", len(d.ChecksumsSha256), len(d.ChecksumsSha512), len(e256), len(e512))
				return
			}
			for i, e := range e256 {
				verifyEntry(r, "typed", d.ChecksumsSha256[i].FileHash, e)
			}
			for i, e := range e512 {
				verifyEntry(r, "typed", d.ChecksumsSha512[i].FileHash, e)
			}
			return
		}
		var d bestDoc
		var err error
		task := r.Solo("unmarshal", func() { err = control.Unmarshal(&d, rd) })
		if taskTrouble(r, "C12", "best", task) {
			return
		}
		if err != nil {
			r.Violate("C12/unmarshal-error", "best", "%v\n%s", err, sb.String())
			return
		}
		got := d.Checksums()
		// the selector must return the entries of ONE of the fields present
		var want []c12Entry
		switch {
		case len(got) == len(e256) && len(e256) > 0 && got[0].Hash == e256[0].Recorded:
			want = e256
		case len(got) == len(e512) && len(e512) > 0 && got[0].Hash == e512[0].Recorded:
			want = e512
			r.Probe("best-selected-sha512")
		default:
			r.Violate("C12/best-selector", "best", "Checksums() returned %d entries matching neither field (sha256:%d sha512:%d)", len(got), len(e256), len(e512))
			return
		}
		for i, e := range want {
			verifyEntry(r, "best", got[i], e)
		}
	case 2:
		alg := []string{"sha256", "sha512"}[t.Draw(2, "c12.halg")]
		content := t.Sub("c12.content").Bytes(t.Range(0, 400, "c12.clen"))
		h, err := hashio.NewHasher(alg)
		if err != nil {
			r.Violate("C12/constructor-error", "NewHasher", "%v", err)
			return
		}
		h.Write(content)
		fh := control.FileHashFromHasher("pool/x.deb", *h)
		e := c12Entry{Field: "from-hasher-" + alg, Alg: alg, Content: content, Recorded: hex.EncodeToString(trueDigest(alg, content)), Kind: "equal", Name: "pool/x.deb", Accept: true, HexOK: true}
		if fh.Algorithm != alg {
			r.Violate("C12/entry-algorithm", "from-hasher", "FileHashFromHasher(%s) gives algorithm %q", alg, fh.Algorithm)
			return
		}
		verifyEntry(r, "from-hasher", fh, e)
		// and it must reject a stream that differs in one byte
		mod := append([]byte{0x55}, content...)
		if len(content) > 0 && t.Bool(1, 2, "c12.modkind") {
			mod = append([]byte(nil), content...)
			mod[t.Draw(len(mod), "c12.modpos")] ^= 0x01
		}
		e2 := e
		e2.Content, e2.Accept, e2.Kind = mod, false, "stream-modified"
		fh2 := fh
		fh2.Size = int64(len(mod))
		verifyEntry(r, "from-hasher", fh2, e2)
	}
}

// c12Direct uses a Hasher itself as the io.Writer of io.Copy (the source has no
// WriteTo, so io.Copy takes the Hasher's ReadFrom when it has one, its Write
// otherwise).  The source may fail once, transiently, after which the caller
// resumes the copy on the same Hasher: length and digest are those of all bytes
// that went in.
func c12Direct(r *rt.Run) {
	t := r.T
	c12Kept = nil
	data := genData(t, "c12.data")
	alg := c12Algs[t.Draw(4, "c12.alg")]
	h, err := hashio.NewHasher(alg)
	if err != nil {
		r.Violate("C12/constructor-error", "direct", "%v", err)
		return
	}
	src := simio.NewReader(r, "source", data)
	transient := len(data) > 0 && t.Bool(1, 2, "config.faulty")
	if transient {
		src.FailOnceAt(t.Draw(len(data)+1, "faultpos"))
	}
	r.Event("workload", "direct", fmt.Sprintf("len=%d alg=%s transient=%v", len(data), alg, transient))
	var total int64
	var lastErr error
	task := r.Solo("copier", func() {
		for attempt := 0; attempt < 3; attempt++ {
			n, e := io.Copy(h, onlyReader{src})
			total += n
			lastErr = e
			if e == nil {
				return
			}
			r.Probe("copy-into-hasher-interrupted-and-resumed")
			if h.Size() != int64(src.Pos()) {
				r.Violate("C12/size-mismatch", "direct/after-interrupted-copy", "Size()=%d after %d bytes went into the hasher (copy interrupted by %v)", h.Size(), src.Pos(), e)
			}
		}
	})
	if taskTrouble(r, "C12", "direct", task) {
		return
	}
	if lastErr != nil {
		r.Violate("C12/read-error", "direct", "copy did not finish after the transient fault: %v", lastErr)
		return
	}
	if total != int64(len(data)) {
		r.Violate("C12/bytes-altered", "direct", "io.Copy into the hasher reported %d bytes of %d", total, len(data))
	}
	checkHashers(r, "direct", []string{alg}, []*hashio.Hasher{h}, data)
}

// onlyReader hides every method but Read.
type onlyReader struct{ io.Reader }

func runC12(r *rt.Run, tier string) {
	if r.T.Bool(1, 8, "c12.direct") {
		r.Stats["part.direct"]++
		c12Direct(r)
		return
	}
	if r.T.Bool(2, 5, "c12.part") {
		r.Stats["part.verifier"]++
		c12Verifier(r)
	} else {
		r.Stats["part.stream"]++
		c12Stream(r)
	}
}

func init() {
	register(&Prop{
		ID: "C12", Level: "exploration", Variant: "N", Design: "DESIGN.md §5 C12",
		Rule:      "Stream part: a byte string (0..70 KB), an algorithm list (1..5 of md5/sha1/sha256/sha512, any order, repeats), direction (hashing writer(s) or reader(s)), the caller's chunk/buffer sizes, the simulated source's delivery schedule incl. (n,EOF) and zero reads, and optionally one fault (short write/ENOSPC/EIO of the sink, EIO of the source); size and digests are compared with crypto/* after every step for small inputs. Direct part: io.Copy straight into a Hasher from a source that fails once and is resumed. Verifier part: Checksums-Sha256/-Sha512 fields with recorded hashes that are equal, upper-case, one nibble off, truncated to any shorter length, extended by further digits, of the other algorithm, not hex or odd-length are parsed through control.Unmarshal over a simulated stream into typed slices and BestChecksums, and entries are built with FileHashFromHasher; each content is streamed through Verifier() in tape-chosen chunks.",
		Run:       runC12,
		QuickRuns: 150000, QuickSecs: 30, ThoroughRuns: 5_000_000, ThoroughSecs: 900,
		Components: map[string]interface{}{
			"real": []string{"pault.ag/go/debian/hashio", "pault.ag/go/debian/control (FileHash.Verifier, FileHashFromHasher, BestChecksums, Unmarshal)"},
			"stub": []string{"simio.Reader", "simio.Writer"},
		},
		Assumptions: []string{"crypto/md5, sha1, sha256, sha512 of the Go standard library are the reference digests", "Verifier() on md5/sha1 entries calls log.Fatalf by design and is not exercised (the statement restricts itself to Sha256/Sha512 fields)"},
	})
	propProbes["C12"] = []string{"copied-into-a-destination-that-failed-once", "copy-into-hasher-interrupted-and-resumed", "zero-length-write", "data-and-eof-in-one-read", "best-selected-sha512"}
}
