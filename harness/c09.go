package main

// C09  Struct marshal/unmarshal round-trips and passes unknown fields through.
//
// Simulated: the C08 document store (library writer -> simulated sink ->
// stored bytes -> simulated source -> library reader) with probe struct types
// covering every supported field kind and tag combination.

import (
	"fmt"
	"reflect"
	"strings"
	"time"

	"pault.ag/go/debian/control"
	"pault.ag/go/debian/dependency"
	"pault.ag/go/debian/version"
	"verifsim/rt"
	"verifsim/simio"
)

// c09All covers every supported kind and tag (no embedded Paragraph).
type c09All struct {
	Name      string
	Renamed   string `control:"X-Renamed"`
	Req       string `required:"true"`
	Skip      string `control:"-"`
	N         int
	U         uint
	B         bool
	ListSp    []string
	ListComma []string `control:"List-Comma" delim:", "`
	ListNL    []string `control:"List-NL" delim:"\n" strip:"\n\r\t "`
	ListStrip []string `control:"List-Strip" delim:"," strip:" "`
	ReqList   []string `control:"Req-List" required:"true"`
	Ver       version.Version
	Dep       dependency.Dependency
	Arch      dependency.Arch
	Arches    []dependency.Arch
	Hashes    []control.SHA256FileHash `control:"Checksums-Sha256" delim:"\n" strip:"\n\r\t "`
	Text      string
	Multi     string `multiline:"true"`
	// lists of numbers, a named string type, a second bool (the first list kinds
	// are strings and custom types)
	Ints   []int    `control:"X-Ints" delim:" "`
	Uints  []uint   `control:"X-Uints" delim:", "`
	Named  c09Named `control:"X-Named"`
	Second bool     `control:"X-Second"`
	// skipped fields may be of any kind: nothing is ever asked of them
	SkipMap   map[string]int  `control:"-"`
	SkipTime  time.Time       `control:"-"`
	SkipFunc  func() error    `control:"-"`
	SkipFloat float64         `control:"-"`
	skipInner struct{ x int } `control:"-"`
}

// c09Named is a named string type (kind String, not type string).
type c09Named string

// c09Pass embeds the raw paragraph: unknown fields must pass through.
type c09Pass struct {
	control.Paragraph
	Package string
	Version version.Version
	Count   int      `control:"X-Count"`
	Note    string   `control:"X-Note"`
	Tags    []string `delim:", "`
	Origin  string   `control:"X-Origin" required:"true"`
}

type c09Inner struct {
	Inner string `control:"Inner-Field"`
	Count int
}

// c09Outer has a nested plain struct (decode only: the walk descends into it).
type c09Outer struct {
	Outer  string
	Nested c09Inner
}

// c09Ptr is used for the "marshalling never panics" clause.
type c09Ptr struct {
	Name string
	PS   *string
	PI   *int
	PV   *version.Version
}

var c09Arches = []mArch{archStock[0], archStock[1], archStock[2], archStock[3], archStock[4], archStock[6]}

func genTokens(t *rt.Tape, label string, n int, alphabet string) []string {
	out := []string{}
	for i := 0; i < n; i++ {
		out = append(out, genFrom(t, alphabet, 1, 6, label))
	}
	return out
}

type c09Model struct {
	v      c09All
	ver    mVersion
	dep    mDep
	arch   mArch
	arches []mArch
}

func genC09All(t *rt.Tape, r *rt.Run) c09Model {
	m := c09Model{}
	v := &m.v
	str := func(label string) string {
		if t.Bool(1, 4, label+".empty") {
			return ""
		}
		return strings.TrimSpace(genValueText(t, label, true))
	}
	v.Name, v.Renamed, v.Req, v.Skip = str("c09.name"), str("c09.renamed"), str("c09.req"), str("c09.skip")
	if t.Bool(1, 30, "c09.longvalue") {
		// one physical line longer than 4 KiB (and than other round buffer sizes)
		unit := "long-" + strings.ReplaceAll(v.Name, "\n", " ") + "word (>= 1:2.0) "
		v.Name = strings.TrimSpace(strings.Repeat(unit, 1+t.Range(3000, 70000, "c09.longn")/len(unit)))
		r.Probe("value-longer-than-4096-bytes")
	}
	v.N = t.Draw(2001, "c09.n") - 1000
	if t.Bool(1, 4, "c09.nzero") {
		v.N = 0
	}
	v.U = uint(t.Draw(1<<30, "c09.u"))
	if t.Bool(1, 6, "c09.ubig") {
		// the far end of the unsigned range
		v.U = []uint{1<<63 - 1, 1 << 63, 1<<64 - 1, 1<<63 + 12345}[t.Draw(4, "c09.ubigv")]
		r.Probe("uint-above-int64-range")
	}
	if t.Bool(1, 4, "c09.uzero") {
		v.U = 0
	}
	v.B = t.Bool(1, 2, "c09.b")
	v.Second = t.Bool(1, 2, "c09.second")
	for i, n := 0, t.Draw(4, "c09.nints"); i < n; i++ {
		v.Ints = append(v.Ints, t.Draw(2001, "c09.int")-1000)
	}
	for i, n := 0, t.Draw(4, "c09.nuints"); i < n; i++ {
		v.Uints = append(v.Uints, uint(t.Draw(1<<20, "c09.uint")))
	}
	if t.Bool(1, 2, "c09.named") {
		v.Named = c09Named(genFrom(t, lowerAlnum, 1, 8, "c09.namedv"))
	}
	v.ListSp = genTokens(t, "c09.lsp", t.Draw(4, "c09.nlsp"), lowerAlnum+"-.,")
	v.ListComma = genTokens(t, "c09.lcm", t.Draw(4, "c09.nlcm"), lowerAlnum+"- .")
	for i := range v.ListComma {
		v.ListComma[i] = strings.TrimSpace(v.ListComma[i])
		if v.ListComma[i] == "" {
			v.ListComma[i] = "x"
		}
	}
	for i, n := 0, t.Draw(4, "c09.nlnl"); i < n; i++ {
		v.ListNL = append(v.ListNL, notDot(strings.TrimSpace(genValueText(t, "c09.lnl", false))))
	}
	v.ListStrip = genTokens(t, "c09.lst", t.Draw(4, "c09.nlst"), lowerAlnum+"-.")
	v.ReqList = genTokens(t, "c09.rql", t.Draw(3, "c09.nrql"), lowerAlnum)
	if len(v.ReqList) == 0 {
		r.Probe("required-empty-list")
	}
	if t.Bool(3, 4, "c09.hasver") {
		m.ver = genVersion(t, "c09.ver")
		v.Ver = version.Version{Epoch: m.ver.Epoch, Version: m.ver.Upstream, Revision: m.ver.Revision}
	}
	if t.Bool(2, 3, "c09.hasdep") {
		m.dep = genDep(t, depOpts{Substvars: true, Stages: true, ConcreteArchs: true, MaxRels: 3}, "c09.dep")
		d, err := dependency.Parse(m.dep.render(false))
		if err != nil {
			r.Violate("C09/dependency-parse", "setup", "cannot parse generated dependency %q: %v", m.dep.render(false), err)
		} else {
			v.Dep = *d
		}
	}
	m.arch = c09Arches[t.Draw(len(c09Arches), "c09.arch")]
	a, _ := dependency.ParseArch(m.arch.Text)
	v.Arch = *a
	for i, n := 0, t.Draw(4, "c09.narches"); i < n; i++ {
		ma := c09Arches[t.Draw(len(c09Arches), "c09.arches")]
		pa, _ := dependency.ParseArch(ma.Text)
		m.arches = append(m.arches, ma)
		v.Arches = append(v.Arches, *pa)
	}
	for i, n := 0, t.Draw(3, "c09.nhash"); i < n; i++ {
		h := control.SHA256FileHash{}
		h.Algorithm, h.Hash, h.Size, h.Filename, h.ByHash = "sha256", genFrom(t, "0123456789abcdef", 64, 64, "c09.hash"), int64(t.Draw(1<<30, "c09.hsize")), genFrom(t, lowerAlnum+"._-", 1, 12, "c09.hname"), "SHA256"
		v.Hashes = append(v.Hashes, h)
	}
	multi := func(label string) string {
		if t.Bool(1, 3, label+".empty") {
			return ""
		}
		lines := []string{notDot(strings.TrimSpace(genValueText(t, label, true)))}
		for i, n := 0, t.Draw(4, label+".n"); i < n; i++ {
			if t.Bool(1, 4, label+".e") {
				lines = append(lines, "")
			} else {
				lines = append(lines, notDot(strings.TrimRight(genLine(t, label, false), " \t")))
			}
		}
		for len(lines) > 1 && lines[len(lines)-1] == "" {
			lines = lines[:len(lines)-1] // (a trailing empty line is "one trailing newline")
		}
		return strings.Join(lines, "\n")
	}
	v.Text = multi("c09.text")
	v.Multi = multi("c09.multi")
	if strings.Contains(v.Text, "\n") || strings.Contains(v.Multi, "\n") {
		r.Probe("multi-line-string-field")
	}
	return m
}

// notDot avoids a line that is exactly "." (the format's marker for an empty line).
func notDot(s string) string {
	if strings.TrimSpace(s) == "." {
		return s + "x"
	}
	return s
}

func strsEq(a, b []string) bool {
	if len(a) != len(b) {
		return false
	}
	for i := range a {
		if a[i] != b[i] {
			return false
		}
	}
	return true
}

// c09Diff compares the decoded struct with what was marshalled.
func c09Diff(got *c09All, m *c09Model) (field, msg string) {
	w := &m.v
	s := func(name, g, x string) (string, string) {
		if strip1(g) != strip1(x) {
			return name, fmt.Sprintf("got %q want %q", clip(g, 100), clip(x, 100))
		}
		return "", ""
	}
	for _, c := range [][3]string{{"Name", got.Name, w.Name}, {"Renamed", got.Renamed, w.Renamed}, {"Req", got.Req, w.Req}, {"Text", got.Text, w.Text}, {"Multi", got.Multi, w.Multi}} {
		if f, d := s(c[0], c[1], c[2]); f != "" {
			return f, d
		}
	}
	if got.Skip != "" {
		return "Skip", fmt.Sprintf("field tagged control:\"-\" was filled with %q", got.Skip)
	}
	if got.N != w.N {
		return "N", fmt.Sprintf("got %d want %d", got.N, w.N)
	}
	if got.U != w.U {
		return "U", fmt.Sprintf("got %d want %d", got.U, w.U)
	}
	if got.B != w.B {
		return "B", fmt.Sprintf("got %v want %v", got.B, w.B)
	}
	if got.Second != w.Second {
		return "Second", fmt.Sprintf("got %v want %v", got.Second, w.Second)
	}
	if fmt.Sprint(got.Ints) != fmt.Sprint(w.Ints) && (len(got.Ints) != 0 || len(w.Ints) != 0) {
		return "Ints", fmt.Sprintf("got %v want %v", got.Ints, w.Ints)
	}
	if fmt.Sprint(got.Uints) != fmt.Sprint(w.Uints) && (len(got.Uints) != 0 || len(w.Uints) != 0) {
		return "Uints", fmt.Sprintf("got %v want %v", got.Uints, w.Uints)
	}
	if got.Named != w.Named {
		return "Named", fmt.Sprintf("got %q want %q", got.Named, w.Named)
	}
	for _, c := range []struct {
		n    string
		g, x []string
	}{{"ListSp", got.ListSp, w.ListSp}, {"ListComma", got.ListComma, w.ListComma}, {"ListNL", got.ListNL, w.ListNL}, {"ListStrip", got.ListStrip, w.ListStrip}, {"ReqList", got.ReqList, w.ReqList}} {
		if !strsEq(c.g, c.x) {
			return c.n, fmt.Sprintf("got %q want %q", c.g, c.x)
		}
	}
	if !verEq(got.Ver, m.ver) {
		return "Ver", fmt.Sprintf("got %+v want %q", got.Ver, m.ver.Text)
	}
	if d := depDiff(got.Dep, m.dep); d != "" {
		return "Dep", d + " (written as " + m.dep.render(false) + ")"
	}
	if !archEq(got.Arch, m.arch) {
		return "Arch", fmt.Sprintf("got %+v want %s", got.Arch, m.arch.Text)
	}
	if len(got.Arches) != len(m.arches) {
		return "Arches", fmt.Sprintf("got %d want %d", len(got.Arches), len(m.arches))
	}
	for i := range m.arches {
		if !archEq(got.Arches[i], m.arches[i]) {
			return "Arches", fmt.Sprintf("element %d: got %+v want %s", i, got.Arches[i], m.arches[i].Text)
		}
	}
	if len(got.Hashes) != len(w.Hashes) {
		return "Hashes", fmt.Sprintf("got %d want %d", len(got.Hashes), len(w.Hashes))
	}
	for i := range w.Hashes {
		g, x := got.Hashes[i], w.Hashes[i]
		if g.Hash != x.Hash || g.Size != x.Size || g.Filename != x.Filename || g.Algorithm != "sha256" {
			return "Hashes", fmt.Sprintf("element %d: got %+v want %+v", i, g.FileHash, x.FileHash)
		}
	}
	return "", ""
}

func c09Marshal(r *rt.Run, v interface{}, w *simio.Writer) (err error, task *rt.Task) {
	task = r.Solo("marshal", func() { err = control.Marshal(w, v) })
	return
}

func c09Unmarshal(r *rt.Run, into interface{}, data []byte) (err error, task *rt.Task) {
	rd := simio.NewReader(r, "store", data)
	task = r.Solo("unmarshal", func() { err = control.Unmarshal(into, rd) })
	return
}

func c09RoundTrip(r *rt.Run) {
	t := r.T
	m := genC09All(t, r)
	if len(r.Violations) > 0 {
		return
	}
	faulty := t.Bool(1, 5, "config.faulty")
	w0 := simio.NewWriter(r, "sink")
	err, task := c09Marshal(r, &m.v, w0)
	if taskTrouble(r, "C09", "Marshal", task) {
		return
	}
	if err != nil {
		r.Violate("C09/marshal-error", "all-kinds", "Marshal of a supported struct failed: %v", err)
		return
	}
	text := string(w0.Buf)
	if msg := scanWritten(w0.Buf, 1); msg != "" {
		r.Violate("C09/blank-line-in-paragraph", "all-kinds", "%s\n%q", msg, clip(text, 400))
	}
	// presence rules on the raw text
	raw, rerr, _ := readParas(r, w0.Buf)
	if rerr != nil || len(raw) != 1 {
		r.Violate("C09/marshalled-text-unreadable", "all-kinds", "err=%v paragraphs=%d\n%q", rerr, len(raw), clip(text, 400))
		return
	}
	p := raw[0]
	has := func(k string) bool { _, ok := p.Values[k]; return ok }
	for _, c := range []struct {
		key  string
		zero bool
	}{{"Name", m.v.Name == ""}, {"X-Renamed", m.v.Renamed == ""}, {"ListSp", len(m.v.ListSp) == 0}, {"List-Comma", len(m.v.ListComma) == 0}, {"List-NL", len(m.v.ListNL) == 0},
		{"List-Strip", len(m.v.ListStrip) == 0}, {"Ver", m.ver.Text == ""}, {"Dep", len(m.dep) == 0}, {"Arches", len(m.arches) == 0}, {"Checksums-Sha256", len(m.v.Hashes) == 0}, {"Text", m.v.Text == ""}, {"Multi", m.v.Multi == ""}} {
		if c.zero && has(c.key) {
			r.Violate("C09/zero-optional-field-written", c.key, "optional field %s is zero but was written as %q", c.key, p.Values[c.key])
		}
		if !c.zero && !has(c.key) {
			r.Violate("C09/field-missing", c.key, "field %s has a value but is absent from the marshalled text\n%q", c.key, clip(text, 400))
		}
	}
	if !has("Req") || !has("Req-List") {
		r.Violate("C09/required-field-not-written", "Req", "required fields must always be written; text:\n%q", clip(text, 300))
	}
	if has("Skip") || has("-") {
		r.Violate("C09/skipped-field-written", "Skip", "field tagged control:\"-\" appears in the text")
	}
	if has("Renamed") {
		r.Violate("C09/rename-ignored", "Renamed", "field was written under its Go name instead of X-Renamed")
	}

	if faulty {
		r.Stats["config.faulty"]++
		if t.Bool(1, 2, "fault.side") && len(w0.Buf) > 0 {
			wf := simio.NewWriter(r, "sinkF")
			wf.FailAt(t.Draw(len(w0.Buf), "faultpos"), simio.ErrNoSpace, t.Bool(1, 2, "fault.short"))
			err, task := c09Marshal(r, &m.v, wf)
			if taskTrouble(r, "C09", "Marshal/faulty-sink", task) {
				return
			}
			if wf.Fired && err == nil {
				r.Violate("C09/write-error-swallowed", "Marshal", "the sink failed but Marshal returned nil")
			}
			// the failed call is over: the same value marshalled to a healthy sink
			// right afterwards gives the text it gave before
			w2 := simio.NewWriter(r, "sink-after-failure")
			err2, task2 := c09Marshal(r, &m.v, w2)
			if taskTrouble(r, "C09", "Marshal/after-failed-marshal", task2) {
				return
			}
			if err2 != nil || string(w2.Buf) != text {
				r.Violate("C09/marshal-not-repeatable", "after-a-failed-marshal", "a Marshal into a failing sink was followed by a Marshal of the same value into a healthy one: err=%v, text %q, before the failure it was %q", err2, clip(string(w2.Buf), 300), clip(text, 300))
			}
			r.Probe("marshalled-again-after-a-failed-marshal")
			return
		}
		var back c09All
		rd := simio.NewReader(r, "store", w0.Buf)
		rd.FailAt(t.Draw(len(w0.Buf)+1, "faultpos"))
		var uerr error
		task := r.Solo("unmarshal", func() { uerr = control.Unmarshal(&back, rd) })
		if taskTrouble(r, "C09", "Unmarshal/faulty-source", task) {
			return
		}
		if uerr == nil {
			r.Violate("C09/read-error-swallowed", "Unmarshal", "the source failed with EIO but Unmarshal returned nil")
		}
		return
	}
	r.Stats["config.faultfree"]++

	var back c09All
	if t.Bool(1, 4, "c09.viaparagraph") {
		// the paragraph-level API instead of the text API
		var cp *control.Paragraph
		var cerr, uerr error
		task := r.Solo("convert", func() {
			cp, cerr = control.ConvertToParagraph(&m.v)
			if cerr == nil {
				// what a reader would make of it
				uerr = control.UnpackFromParagraph(p, &back)
			}
		})
		if taskTrouble(r, "C09", "ConvertToParagraph", task) {
			return
		}
		if cerr != nil || uerr != nil {
			r.Violate("C09/unmarshal-error", "paragraph-api", "ConvertToParagraph err=%v UnpackFromParagraph err=%v", cerr, uerr)
			return
		}
		if cp != nil && len(cp.Order) != len(p.Order) {
			r.Violate("C09/paragraph-api-differs", "ConvertToParagraph", "ConvertToParagraph lists %q, Marshal wrote %q", cp.Order, p.Order)
		}
		r.Probe("paragraph-api")
	} else {
		err, task = c09Unmarshal(r, &back, w0.Buf)
		if taskTrouble(r, "C09", "Unmarshal", task) {
			return
		}
		if err != nil {
			r.Violate("C09/unmarshal-error", "all-kinds", "Unmarshal of marshalled text failed: %v\n%q", err, clip(text, 500))
			return
		}
	}
	if f, d := c09Diff(&back, &m); f != "" {
		r.Violate("C09/roundtrip-mismatch", f, "field %s: %s\ntext:\n%q", f, d, clip(text, 500))
	}

	// a required field missing on input is an error
	if t.Bool(1, 3, "c09.dropreq") {
		lines := strings.SplitAfter(text, "\n")
		out := ""
		skipping := false
		for _, l := range lines {
			if strings.HasPrefix(l, "Req:") {
				skipping = true
				continue
			}
			if skipping && (strings.HasPrefix(l, " ") || strings.HasPrefix(l, "\t")) {
				continue
			}
			skipping = false
			out += l
		}
		var x c09All
		how := "Req"
		var err error
		var task *rt.Task
		switch t.Draw(4, "c09.dropreq.target") {
		case 0: // a fresh destination
			err, task = c09Unmarshal(r, &x, []byte(out))
		case 1: // the destination still holds the values of an earlier, complete input
			x = back
			how = "Req/destination-holds-earlier-values"
			err, task = c09Unmarshal(r, &x, []byte(out))
		case 2: // one Decoder, one variable: a complete paragraph, then the one that lacks the field
			how = "Req/second-Decode-into-the-same-variable"
			rd := simio.NewReader(r, "store", []byte(text+"\n"+out))
			var first error
			task = r.Solo("decoder", func() {
				dec, e := control.NewDecoder(rd, nil)
				if e != nil {
					err = e
					return
				}
				if first = dec.Decode(&x); first != nil {
					err = first
					return
				}
				err = dec.Decode(&x)
			})
			if first != nil {
				r.Violate("C09/unmarshal-error", "all-kinds/decoder", "Decode of marshalled text failed: %v", first)
				return
			}
		default: // Unmarshal, then UnpackFromParagraph into the same variable
			how = "Req/UnpackFromParagraph-after-Unmarshal"
			x = back
			task = r.Solo("unpack", func() {
				pr, e := control.NewParagraphReader(simio.NewPlainReader(r, "store", []byte(out)), nil)
				if e != nil {
					err = e
					return
				}
				para, e := pr.Next()
				if e != nil {
					err = e
					return
				}
				err = control.UnpackFromParagraph(*para, &x)
			})
		}
		if taskTrouble(r, "C09", "Unmarshal/missing-required", task) {
			return
		}
		if err == nil {
			r.Violate("C09/missing-required-accepted", how, "input lacks the required field Req but decoding returned nil (Req is now %q)", x.Req)
		}
		r.Probe("missing-required-field")
	}
}

var c09UnknownNames = []string{"X-Foo", "X-Bar", "Homepage", "Vcs-Git", "Zzz", "X-Count-2", "Epoch", "Revision", "OS", "CPU", "Order", "Values", "x-note", "TAGS", "package", "X-NOTE"}

func c09PassThrough(r *rt.Run) {
	t := r.T
	// document: known fields interleaved with unknown ones
	type kv struct{ k, v string }
	var fields []kv
	known := map[string]string{"Package": genPkgName(t, "c09p.pkg"), "Version": genVersion(t, "c09p.ver").Text, "X-Count": fmt.Sprint(t.Draw(100, "c09p.count")), "X-Note": strings.TrimSpace(genValueText(t, "c09p.note", false)), "Tags": strings.Join(genTokens(t, "c09p.tags", 1+t.Draw(3, "c09p.ntags"), lowerAlnum), ", "), "X-Origin": "origin-" + genPkgName(t, "c09p.origin")}
	order := []string{"Package", "Version", "X-Count", "X-Note", "Tags", "X-Origin"}
	present := map[string]bool{}
	for _, k := range order {
		if k == "Package" || k == "X-Origin" || t.Bool(3, 4, "c09p.present") {
			fields = append(fields, kv{k, known[k]})
			present[k] = true
		}
	}
	used := map[string]bool{}
	nunk := t.Draw(6, "c09p.nunknown")
	for i := 0; i < nunk; i++ {
		n := c09UnknownNames[t.Draw(len(c09UnknownNames), "c09p.uname")]
		if used[n] {
			continue
		}
		used[n] = true
		val := strings.TrimSpace(genValueText(t, "c09p.uval", false))
		if t.Bool(1, 4, "c09p.umulti") {
			val += "\n more\n .\n lines"
		}
		pos := t.Draw(len(fields)+1, "c09p.upos")
		fields = append(fields[:pos], append([]kv{{n, val}}, fields[pos:]...)...)
	}
	if len(used) > 0 {
		r.Probe("unknown-fields-present")
	}
	var sb strings.Builder
	for _, f := range fields {
		sb.WriteString(f.k + ": " + f.v + "\n")
	}
	doc := sb.String()
	var s c09Pass
	err, task := c09Unmarshal(r, &s, []byte(doc))
	if taskTrouble(r, "C09", "pass-through/Unmarshal", task) {
		return
	}
	if err != nil {
		key := "other"
		for n := range used {
			if n == "Epoch" || n == "Revision" || n == "OS" || n == "CPU" {
				key = "unknown-field-named-like-a-member-of-a-custom-type"
			}
		}
		r.Violate("C09/unmarshal-error", "pass-through/"+key, "Unmarshal failed: %v\n%q", err, clip(doc, 400))
		return
	}
	orig, _, _ := readParas(r, []byte(doc))
	if len(orig) != 1 {
		r.Violate("C09/harness", "pass-through", "generated document does not read as one paragraph")
		return
	}
	// mutate known fields
	mut := map[string]string{}
	if t.Bool(1, 2, "c09p.mutpkg") {
		s.Package = "renamed-" + s.Package
		mut["Package"] = s.Package
	}
	if t.Bool(1, 2, "c09p.mutnote") {
		s.Note = "a new note"
		mut["X-Note"] = s.Note
	}
	if t.Bool(1, 3, "c09p.mutcount") {
		s.Count = s.Count + 1000
		mut["X-Count"] = fmt.Sprint(s.Count)
	}
	// clear any subset of the known optional fields whose text form is empty when zero
	cleared := []string{}
	if present["X-Note"] && mut["X-Note"] == "" && t.Bool(1, 2, "c09p.clearnote") {
		s.Note = ""
		cleared = append(cleared, "X-Note")
	}
	if present["Tags"] && t.Bool(1, 2, "c09p.cleartags") {
		s.Tags = nil
		cleared = append(cleared, "Tags")
	}
	if present["Version"] && t.Bool(1, 3, "c09p.clearver") {
		s.Version = version.Version{}
		cleared = append(cleared, "Version")
	}
	// the required field emptied after the read: required fields are always
	// written, with the struct's current (empty) value - not with the text that
	// the embedded paragraph remembers
	emptiedReq := false
	if t.Bool(1, 3, "c09p.emptyreq") {
		s.Origin = ""
		emptiedReq = true
		r.Probe("required-field-emptied-after-read")
	} else if t.Bool(1, 3, "c09p.mutreq") {
		s.Origin = "elsewhere"
		mut["X-Origin"] = s.Origin
	}
	if len(cleared) > 0 {
		r.Probe("known-field-cleared")
	}
	if len(cleared) > 1 {
		r.Probe("several-known-fields-cleared")
	}
	w := simio.NewWriter(r, "sink")
	err, task = c09Marshal(r, &s, w)
	if taskTrouble(r, "C09", "pass-through/Marshal", task) {
		return
	}
	if err != nil {
		r.Violate("C09/marshal-error", "pass-through", "%v", err)
		return
	}
	// marshalling is repeatable: a second and third Marshal of the same value
	// give the same text (and leave the embedded Paragraph alone)
	for rep := 2; rep <= 3; rep++ {
		w2 := simio.NewWriter(r, "sink-again")
		err, task = c09Marshal(r, &s, w2)
		if taskTrouble(r, "C09", "pass-through/Marshal-again", task) {
			return
		}
		if err != nil || string(w2.Buf) != string(w.Buf) {
			r.Violate("C09/marshal-not-repeatable", "pass-through", "Marshal #%d of the same value (err=%v) wrote\n%q\nbut the first Marshal wrote\n%q", rep, err, clip(string(w2.Buf), 400), clip(string(w.Buf), 400))
			return
		}
	}
	r.Probe("marshalled-repeatedly")
	back, rerr, _ := readParas(r, w.Buf)
	if rerr != nil || len(back) != 1 {
		r.Violate("C09/marshalled-text-unreadable", "pass-through", "err=%v paragraphs=%d\n%q", rerr, len(back), clip(string(w.Buf), 400))
		return
	}
	b := back[0]
	// unknown fields unchanged, in their original relative order
	var wantUnk, gotUnk []string
	for _, k := range orig[0].Order {
		if used[k] {
			wantUnk = append(wantUnk, k)
		}
	}
	for _, k := range b.Order {
		if used[k] {
			gotUnk = append(gotUnk, k)
		}
	}
	if !strsEq(wantUnk, gotUnk) {
		r.Violate("C09/unknown-fields-reordered-or-lost", "pass-through", "unknown fields were %q, re-emitted as %q\nout:\n%q", wantUnk, gotUnk, clip(string(w.Buf), 400))
	}
	for _, k := range wantUnk {
		if strip1(b.Values[k]) != strip1(orig[0].Values[k]) {
			r.Violate("C09/unknown-field-changed", "pass-through", "unknown field %s: %q became %q", k, orig[0].Values[k], b.Values[k])
		}
	}
	// known fields reflect the struct's current values
	for k, v := range mut {
		if b.Values[k] != v {
			r.Violate("C09/known-field-stale", "mutated/"+k, "struct field for %s was set to %q but the marshalled text has %q", k, v, b.Values[k])
		}
	}
	for _, k := range cleared {
		if v, ok := b.Values[k]; ok && v != "" {
			r.Violate("C09/known-field-stale", "cleared/"+k, "struct field for %s was cleared (cleared together: %v) but the marshalled text still has %q\nout:\n%q", k, cleared, v, clip(string(w.Buf), 300))
		}
	}
	if v, ok := b.Values["X-Origin"]; emptiedReq && (!ok || strings.TrimSpace(v) != "") {
		r.Violate("C09/known-field-stale", "required-emptied/X-Origin", "required struct field Origin was set to \"\" after the read but the marshalled text has %q (present=%v)\nout:\n%q", v, ok, clip(string(w.Buf), 300))
	}
	clearedVer := false
	for _, k := range cleared {
		if k == "Version" {
			clearedVer = true
		}
	}
	if v, ok := b.Values["Package"]; !ok || v != s.Package {
		r.Violate("C09/known-field-stale", "Package-missing", "struct field Package=%q but the marshalled text has %q (present=%v); unknown fields: %v\nout:\n%q", s.Package, v, ok, wantUnk, clip(string(w.Buf), 300))
	}
	if s.Note != "" && b.Values["X-Note"] != s.Note {
		r.Violate("C09/known-field-stale", "X-Note-missing", "struct field Note=%q but the marshalled text has %q; unknown fields: %v\nout:\n%q", s.Note, b.Values["X-Note"], wantUnk, clip(string(w.Buf), 300))
	}
	if present["Version"] && !clearedVer && b.Values["Version"] == "" {
		r.Violate("C09/field-missing", "pass-through/Version", "Version vanished")
	}
}

// two DIFFERENT struct types that share their name (function-local types)
func c09LocalTypeA(w *simio.Writer, r *rt.Run, a, b string) (error, *rt.Task) {
	type localT struct {
		First  string `control:"X-First"`
		Second string `control:"X-Second"`
	}
	v := localT{First: a, Second: b}
	return c09Marshal(r, &v, w)
}

func c09LocalTypeB(w *simio.Writer, r *rt.Run, a, b, c string) (error, *rt.Task) {
	type localT struct {
		Alpha string
		Skip  string `control:"-"`
		Beta  string `control:"X-Beta"`
		Gamma string `control:"X-Gamma"`
	}
	v := localT{Alpha: a, Skip: "never written", Beta: b, Gamma: c}
	return c09Marshal(r, &v, w)
}

// c09Opt has optional fields only: its zero value marshals to nothing at all.
type c09Opt struct {
	Name string
	Tags []string `delim:", "`
	Ver  version.Version
}

// c09Sequence: several values through ONE Encoder (or Marshal of a slice), some
// of them zero values that marshal to nothing; what is read back is exactly the
// non-empty values, one paragraph each, in order.
func c09Sequence(r *rt.Run) {
	t := r.T
	n := 2 + t.Draw(4, "c09s.n")
	vals := make([]c09Opt, n)
	var want []c09Opt
	for i := range vals {
		if t.Bool(1, 3, "c09s.zero") {
			continue
		}
		vals[i].Name = fmt.Sprintf("value-%d-%s", i, genFrom(t, lowerAlnum, 0, 6, "c09s.name"))
		if t.Bool(1, 2, "c09s.tags") {
			vals[i].Tags = []string{"t" + fmt.Sprint(i), "common"}
		}
		want = append(want, vals[i])
	}
	asSlice := t.Bool(1, 3, "c09s.slice")
	w := simio.NewWriter(r, "sink")
	var err error
	task := r.Solo("encoder", func() {
		if asSlice {
			err = control.Marshal(w, vals)
			return
		}
		enc, e := control.NewEncoder(w)
		if e != nil {
			err = e
			return
		}
		for i := range vals {
			if err = enc.Encode(&vals[i]); err != nil {
				return
			}
		}
	})
	if taskTrouble(r, "C09", "Encoder/sequence", task) {
		return
	}
	if err != nil {
		r.Violate("C09/marshal-error", "sequence", "%v", err)
		return
	}
	r.Probe("sequence-with-values-that-marshal-to-nothing")
	if len(w.Buf) > 0 && t.Bool(1, 4, "config.faulty") {
		// the store fails while the list is read back: an error, not a shorter list
		var part []c09Opt
		rd := simio.NewReader(r, "store", w.Buf)
		rd.FailAt(t.Draw(len(w.Buf), "faultpos"))
		var ferr error
		task := r.Solo("unmarshal", func() { ferr = control.Unmarshal(&part, rd) })
		if taskTrouble(r, "C09", "Unmarshal/sequence/faulty", task) {
			return
		}
		if rd.Failed() && ferr == nil {
			r.Violate("C09/read-error-swallowed", "Unmarshal-into-a-list", "the source failed after %d of %d bytes but Unmarshal into a list returned nil and %d of %d values", rd.Pos(), len(w.Buf), len(part), len(want))
		}
		return
	}
	var back []c09Opt
	uerr, task := c09Unmarshal(r, &back, w.Buf)
	if taskTrouble(r, "C09", "Unmarshal/sequence", task) {
		return
	}
	key := "sequence-with-empty-values"
	if uerr != nil {
		r.Violate("C09/unmarshal-error", key, "reading back %d values (%d of them empty) written through one Encoder failed: %v\ntext:\n%q", n, n-len(want), uerr, clip(string(w.Buf), 400))
		return
	}
	if len(back) != len(want) {
		r.Violate("C09/roundtrip-mismatch", key, "%d non-empty values were written (among %d), %d came back\ntext:\n%q", len(want), n, len(back), clip(string(w.Buf), 400))
		return
	}
	for i := range want {
		if back[i].Name != want[i].Name || !strsEq(back[i].Tags, want[i].Tags) {
			r.Violate("C09/roundtrip-mismatch", key, "value %d came back as %+v, written %+v\ntext:\n%q", i, back[i], want[i], clip(string(w.Buf), 400))
			return
		}
	}
}

// c09Mid embeds the raw paragraph BETWEEN its own fields (nothing says it must come first).
type c09Mid struct {
	Summary string
	Count   int `control:"X-Count"`
	control.Paragraph
	Section string
	Tags    []string `delim:", "`
}

// c09EmbeddedAnywhere: pass-through with the embedded paragraph in the middle
// of the struct: known fields before and after it are cleared or changed, and
// the re-marshalled text shows the struct's current values, unknown fields
// unchanged and in place.
func c09EmbeddedAnywhere(r *rt.Run) {
	t := r.T
	doc := "Summary: an old summary\nX-Unknown-1: keep me\nSection: oldsection\nX-Count: 7\nTags: a, b\nX-Unknown-2: keep me too\n"
	var v c09Mid
	err, task := c09Unmarshal(r, &v, []byte(doc))
	if taskTrouble(r, "C09", "embedded-not-first", task) {
		return
	}
	if err != nil || v.Summary != "an old summary" || v.Section != "oldsection" || v.Count != 7 {
		r.Violate("C09/unmarshal-error", "embedded-not-first", "decoding into a struct whose embedded Paragraph is not its first member: err=%v value=%+v", err, v)
		return
	}
	clearSummary, clearSection, clearTags := t.Bool(1, 2, "c09e.summary"), t.Bool(1, 2, "c09e.section"), t.Bool(1, 2, "c09e.tags")
	if clearSummary {
		v.Summary = ""
	} else {
		v.Summary = "a new summary"
	}
	if clearSection {
		v.Section = ""
	}
	if clearTags {
		v.Tags = nil
	}
	w := simio.NewWriter(r, "sink")
	err, task = c09Marshal(r, &v, w)
	if taskTrouble(r, "C09", "embedded-not-first", task) {
		return
	}
	r.Probe("embedded-paragraph-not-the-first-member")
	if err != nil {
		r.Violate("C09/marshal-error", "embedded-not-first", "%v", err)
		return
	}
	back, rerr, _ := readParas(r, w.Buf)
	if rerr != nil || len(back) != 1 {
		r.Violate("C09/marshalled-text-unreadable", "embedded-not-first", "err=%v paragraphs=%d\n%q", rerr, len(back), clip(string(w.Buf), 300))
		return
	}
	p := back[0]
	expect := map[string]string{"X-Unknown-1": "keep me", "X-Unknown-2": "keep me too", "X-Count": "7"}
	if !clearSummary {
		expect["Summary"] = "a new summary"
	}
	if !clearSection {
		expect["Section"] = "oldsection"
	}
	if !clearTags {
		expect["Tags"] = "a, b"
	}
	for k, want := range expect {
		if got, ok := p.Values[k]; !ok || strings.TrimSpace(got) != want {
			r.Violate("C09/known-field-not-current", "embedded-not-first/"+k, "field %s: written %q (present=%v), the struct says %q\ntext:\n%q", k, got, ok, want, clip(string(w.Buf), 300))
			return
		}
	}
	for _, k := range p.Order {
		if _, ok := expect[k]; !ok {
			r.Violate("C09/known-field-not-current", "embedded-not-first/cleared-field-written", "field %s was cleared in the struct but is written as %q\ntext:\n%q", k, p.Values[k], clip(string(w.Buf), 300))
			return
		}
	}
}

func c09Misc(r *rt.Run) {
	t := r.T
	if t.Bool(1, 4, "c09m.embedded-anywhere") {
		c09EmbeddedAnywhere(r)
		return
	}
	if t.Bool(1, 3, "c09m.sequence") {
		c09Sequence(r)
		return
	}
	switch t.Draw(4, "c09m.kind") {
	case 3: // marshalling one type must not colour how another type of the same name is written
		order := t.Draw(2, "c09m.order")
		var outA, outB string
		for step := 0; step < 2; step++ {
			w := simio.NewWriter(r, "sink")
			var err error
			var task *rt.Task
			if (step == 0) == (order == 0) {
				err, task = c09LocalTypeA(w, r, "one", "two")
				outA = string(w.Buf)
			} else {
				err, task = c09LocalTypeB(w, r, "a", "b", "c")
				outB = string(w.Buf)
			}
			if task.Panic != nil {
				r.Violate("C09/marshal-panics", "same-named-types", "Marshal panicked: %v\n%s", task.Panic, trimStack(task.PanicStack))
				return
			}
			if err != nil {
				r.Violate("C09/marshal-error", "same-named-types", "%v", err)
				return
			}
		}
		if outA != "X-First: one\nX-Second: two\n" || outB != "Alpha: a\nX-Beta: b\nX-Gamma: c\n" {
			r.Violate("C09/roundtrip-mismatch", "same-named-types", "two struct types that share the name localT, marshalled one after the other (order %d), were written as %q and %q", order, outA, outB)
		}
		r.Probe("same-named-struct-types")
	case 2: // every element of a list of custom types decodes as it would alone
		names := []string{"amd64", "any", "all", "kfreebsd-amd64", "linux-any", "bsd-openbsd-i386", "musl-linux-armhf", "hurd-i386", "gnu-kfreebsd-amd64"}
		var elems []string
		for i, n := 0, 2+t.Draw(4, "c09m.narch"); i < n; i++ {
			elems = append(elems, names[t.Draw(len(names), "c09m.arch")])
		}
		type archList struct {
			Arches []dependency.Arch `control:"Architecture"`
		}
		var whole archList
		err, task := c09Unmarshal(r, &whole, []byte("Architecture: "+strings.Join(elems, " ")+"\n"))
		if taskTrouble(r, "C09", "list/Unmarshal", task) {
			return
		}
		if err != nil || len(whole.Arches) != len(elems) {
			r.Violate("C09/list-decode", "Architecture", "err=%v, %d elements from %q", err, len(whole.Arches), elems)
			return
		}
		for i, e := range elems {
			var one archList
			if err, _ := c09Unmarshal(r, &one, []byte("Architecture: "+e+"\n")); err != nil || len(one.Arches) != 1 {
				r.Violate("C09/list-decode", "Architecture/single", "err=%v for %q", err, e)
				return
			}
			if whole.Arches[i] != one.Arches[0] {
				r.Violate("C09/list-element-depends-on-neighbours", "[]dependency.Arch", "element %d (%q) of %q decodes to %+v inside the list but to %+v on its own", i, e, elems, whole.Arches[i], one.Arches[0])
				return
			}
		}
		r.Probe("list-elements-independent")
	case 0: // nested plain struct is filled by the walk
		inner, outer, count := strings.TrimSpace(genValueText(t, "c09m.inner", false)), strings.TrimSpace(genValueText(t, "c09m.outer", false)), t.Draw(1000, "c09m.count")
		doc := fmt.Sprintf("Outer: %s\nInner-Field: %s\nCount: %d\n", outer, inner, count)
		var o c09Outer
		err, task := c09Unmarshal(r, &o, []byte(doc))
		if taskTrouble(r, "C09", "nested/Unmarshal", task) {
			return
		}
		if err != nil || o.Outer != outer || o.Nested.Inner != inner || o.Nested.Count != count {
			r.Violate("C09/nested-struct", "decode", "err=%v got %+v from %q", err, o, doc)
		}
		r.Probe("nested-plain-struct")
	case 1: // marshalling never panics: pointer fields, nil and non-nil
		v := c09Ptr{Name: "x"}
		shape := ""
		if t.Bool(1, 2, "c09m.ps") {
			s := "pointed"
			v.PS = &s
			shape += "S"
		}
		if t.Bool(1, 2, "c09m.pi") {
			i := 7
			v.PI = &i
			shape += "I"
		}
		if t.Bool(1, 2, "c09m.pv") {
			ver, _ := version.Parse("1.0-1")
			v.PV = &ver
			shape += "V"
		}
		w := simio.NewWriter(r, "sink")
		var err error
		task := r.Solo("marshal", func() { err = control.Marshal(w, &v) })
		if task.Panic != nil {
			key := "all-set"
			if len(shape) < 3 {
				key = "nil-pointer-field"
			}
			r.Violate("C09/marshal-panics", key, "Marshal panicked on a struct with pointer fields (non-nil: %q): %v\n%s", shape, task.Panic, trimStack(task.PanicStack))
			return
		}
		_ = err
		if v.PS != nil && err == nil && !strings.Contains(string(w.Buf), "PS: pointed") {
			r.Violate("C09/pointer-field", "PS", "non-nil *string not written: %q", string(w.Buf))
		}
		r.Probe("pointer-fields")
	}
}

func runC09(r *rt.Run, tier string) {
	switch r.T.Weighted([]int{5, 4, 1}, "c09.part") {
	case 0:
		r.Stats["part.roundtrip"]++
		c09RoundTrip(r)
	case 1:
		r.Stats["part.pass-through"]++
		c09PassThrough(r)
	case 2:
		r.Stats["part.misc"]++
		c09Misc(r)
	}
}

var _ = reflect.DeepEqual

func init() {
	register(&Prop{
		ID: "C09", Level: "exploration", Variant: "N", Design: "DESIGN.md §5 C09",
		Rule:      "Three workloads over the simulated document store. Round trip: a probe struct with string, renamed, required, skipped, int, uint, bool, four list flavours (default, ', ', newline+strip, ','+strip), required list, version, dependency, architecture, architecture list, SHA-256 hash list, multi-line string and multiline-tagged string is filled from value models, marshalled through a simulated sink, checked for presence/omission rules on the raw text, unmarshalled through a simulated source (or through ConvertToParagraph/UnpackFromParagraph) and compared field by field; optionally the required field is removed from the text (must fail) or a sink/source fault is injected. Pass-through: a document with known fields and 0..5 unknown fields at tape-chosen positions is decoded into a struct embedding the raw paragraph, known fields are mutated or cleared, a required member is emptied or changed after the read, and the re-marshalled text is compared. Misc: nested plain struct decode; Marshal of pointer fields (nil and non-nil) must not panic.",
		Run:       runC09,
		QuickRuns: 400000, QuickSecs: 30, ThoroughRuns: 4_000_000, ThoroughSecs: 900,
		Components: map[string]interface{}{
			"real": []string{"pault.ag/go/debian/control (Marshal, Unmarshal, ConvertToParagraph, UnpackFromParagraph, Paragraph.Update)", "pault.ag/go/debian/version, dependency (custom types)"},
			"stub": []string{"simio.Reader", "simio.Writer"},
		},
		Assumptions: []string{"'optional zero fields are omitted' is demanded for fields whose text form is empty when zero (strings, lists, versions, dependencies); the pinned test suite requires false booleans to be written as 'no', and zero integers are written as '0'", "architecture values are restricted to names whose String() form re-parses to the same value (wildcard and three-part names lose information in Arch.String, which belongs to the not-applicable properties C05/C06)"},
	})
	propProbes["C09"] = []string{"required-field-emptied-after-read", "embedded-paragraph-not-the-first-member", "sequence-with-values-that-marshal-to-nothing", "value-longer-than-4096-bytes", "marshalled-again-after-a-failed-marshal", "same-named-struct-types", "uint-above-int64-range", "marshalled-repeatedly", "list-elements-independent", "several-known-fields-cleared", "required-empty-list", "multi-line-string-field", "paragraph-api", "missing-required-field", "unknown-fields-present", "known-field-cleared", "nested-plain-struct", "pointer-fields"}
}
