package main

// C16  debsig verification covers the package content that was actually loaded.
//
// Simulated: builder + signer (detached signature by a fixture key over
// debian-binary ‖ control.* ‖ data.*, stored as _gpg<role>) -> corrupting
// store -> loader (deb.Load) + verifier (CheckDebsig), instrumented variant:
// every load runs under a tape-chosen member order of the map scans, which
// replaces "loaded repeatedly" by exact, replayable orders.

import (
	"fmt"
	"strings"

	"golang.org/x/crypto/openpgp"
	"pault.ag/go/debian/deb"
	"verifsim/rt"
	"verifsim/simdisk"
)

var c16Roles = []string{"origin", "maint", "archive"}
var c16Codecs = []string{"", "gz", "xz", "bz2", "zst"}

type c16Attempt struct {
	loadErr, verErr error
	signer          *openpgp.Entity
	ctlDiff         string
	dataDiffS       string
	listErr         error
	seq             []string
	task            *rt.Task
}

// expiredOutsider is a copy of the outsider key (key 3, never a signer of
// anything in this check) whose self signatures say the key expired long ago.
func expiredOutsider() *openpgp.Entity {
	src := pgpKeys[3]
	e := *src
	e.Identities = map[string]*openpgp.Identity{}
	one := uint32(1)
	for k, id := range src.Identities {
		idc := *id
		if id.SelfSignature != nil {
			sig := *id.SelfSignature
			sig.KeyLifetimeSecs = &one
			idc.SelfSignature = &sig
		}
		e.Identities[k] = &idc
	}
	return &e
}

func runC16(r *rt.Run, tier string) {
	t := r.T
	loadKeys()
	r.EnableMapOrder(true)
	debDataFirst = t.Bool(1, 4, "c16.datafirst")
	p := genDeb(t, r, t.Draw(25, "deb.pair"), c16Codecs)
	if debDataFirst {
		r.Probe("data-member-stored-before-control-member")
	}
	debDataFirst = false
	role := c16Roles[t.Draw(3, "c16.role")]
	signerIdx := t.Weighted([]int{3, 3, 1}, "c16.signer")
	signer := pgpKeys[signerIdx]
	if t.Bool(1, 5, "c16.binlines") {
		// deb(5) allows further lines in debian-binary; the signature covers the whole member
		p.BinMember.Data = []byte("2.0\nfuture-line\n")
		r.Probe("debian-binary-with-further-lines")
	}
	signed := append(append(append([]byte{}, p.BinMember.Data...), p.CtlMember.Data...), p.DataMember.Data...)
	sig := detachSign(signer, signed)
	sigM := &arMember{Name: "_gpg" + role, RawName: "_gpg" + role, Timestamp: 1_600_000_000, Mode: "100644", Data: sig}
	ms := append([]*arMember{}, p.Members...)
	pos := len(ms)
	if t.Bool(1, 3, "c16.sigpos") {
		pos = 1 + t.Draw(len(ms), "c16.sigposv")
	}
	ms = append(ms[:pos], append([]*arMember{sigM}, ms[pos:]...)...)

	// keyring: 0 signer only, 1 signer among others, 2 others only, 3 empty
	krKind := 0
	if signerIdx == 2 {
		krKind = 2 // an outsider signed: the keyring never holds it
	} else {
		krKind = t.Weighted([]int{3, 3}, "c16.keyring")
	}
	askRole := role

	faulty := t.Bool(2, 3, "config.faulty")
	fault := "none"
	mustFail := signerIdx == 2
	either := false // corruption of the signature member itself: only soundness is demanded
	var eioMember, decoyHdrEIO *arMember
	decoyEmptyLast := false
	tornBy := 0
	if signerIdx == 2 {
		fault = "outsider-signature"
	}
	if faulty {
		r.Stats["config.faulty"]++
		targets := []*arMember{p.BinMember, p.CtlMember, p.DataMember, sigM}
		nBytes := 0
		for _, m := range targets {
			nBytes += len(m.Data)
		}
		decoyNames := []string{"control.tar", "control.tar.gz", "control.tar.zst", "data.tar", "data.tar.gz", "control.sig", "control.md5", "control.", "data.img", "data.cpio.gz"}
		nDecoy := len(decoyNames) * 2
		const nAppend, nEIO, nTorn, nOmit = 3, 2, 2, 2
		total := nBytes + nDecoy + 2 + 2 + nAppend + nEIO + nTorn + nOmit
		fp := faultIndex(r, total, func() int {
			switch t.Weighted([]int{5, 3, 1, 1, 1, 3, 1, 1}, "fault.kind") {
			case 7:
				return nBytes + nDecoy + 4 + nAppend + nEIO + nTorn + t.Draw(nOmit, "fault.omit")
			case 4:
				return nBytes + nDecoy + 4 + t.Draw(nAppend, "fault.append")
			case 5:
				return nBytes + nDecoy + 4 + nAppend + t.Draw(nEIO, "fault.eio")
			case 6:
				return nBytes + nDecoy + 4 + nAppend + nEIO + t.Draw(nTorn, "fault.torn")
			case 0:
				// bias: signature member and the small debian-binary get as much attention as the big ones
				m := t.Draw(4, "fault.member")
				off := 0
				for i := 0; i < m; i++ {
					off += len(targets[i].Data)
				}
				if len(targets[m].Data) == 0 {
					return t.Draw(nBytes, "fault.off")
				}
				return off + t.Draw(len(targets[m].Data), "fault.off")
			case 1:
				return nBytes + t.Draw(nDecoy, "fault.decoy")
			case 2:
				return nBytes + nDecoy + t.Draw(2, "fault.role")
			default:
				return nBytes + nDecoy + 2 + t.Draw(2, "fault.keyring")
			}
		})
		if nBytes > 6000 {
			r.SweepLen = 0 // too large to sweep byte by byte; sampled only
		}
		mustFail = true
		switch {
		case fp < nBytes:
			off := fp
			for _, m := range targets {
				if off < len(m.Data) {
					nd := append([]byte(nil), m.Data...)
					nd[off] ^= byte(1 + t.Draw(255, "fault.mask"))
					// work on copies so that the model (p) keeps the signed bytes
					for i, x := range ms {
						if x == m {
							c := *m
							c.Data = nd
							ms[i] = &c
						}
					}
					fault = "byte-substitution/" + map[*arMember]string{p.BinMember: "debian-binary", p.CtlMember: "control", p.DataMember: "data", sigM: "signature"}[m]
					if m == sigM {
						// The statement's must-fail list names the three signed members.
						// A changed byte in the signature member usually breaks it, but
						// OpenPGP packet framing has bytes that do not carry meaning
						// (x/crypto accepts other values in the packet-length octets).
						either = true
						mustFail = signerIdx == 2
					}
					break
				}
				off -= len(m.Data)
			}
			r.Fault("stored.byte-substitution")
		case fp < nBytes+nDecoy:
			d := fp - nBytes
			name := decoyNames[d/2]
			before := d%2 == 0
			evil := genCtlPayload(t, "c16.evil")
			evil.Model.Package = "evil-" + evil.Model.Package
			var body []byte
			codec := ""
			switch {
			case len(name) > 8 && name[len(name)-3:] == ".gz":
				codec = "gz"
			case len(name) > 8 && name[len(name)-4:] == ".zst":
				codec = "zst"
			}
			if name[0] == 'c' {
				evil.Files[0].Body = []byte(evil.Model.render())
				for i := range evil.Files {
					if evil.Files[i].Name == evil.CtlName {
						evil.Files[i].Body = []byte(evil.Model.render())
					}
				}
				body = compressWith(codec, buildTar(evil.Files))
			} else {
				body = compressWith(codec, buildTar([]tarFile{{Name: "./evil", Body: []byte("evil payload")}}))
			}
			if name == p.CtlMember.Name || name == p.DataMember.Name {
				// same name as the genuine member: the later one wins in the index
				r.Probe("decoy-with-identical-name")
			}
			dm := &arMember{Name: name, RawName: name, Mode: "100644", Data: body}
			switch t.Weighted([]int{6, 1, 1, 2}, "fault.decoyshape") {
			case 1:
				// the name column written after a leading blank (the reader strips
				// white space on both sides of the column: it is the same name)
				dm.RawName = " " + name
				fault += "/name-after-a-blank"
			case 2:
				dm.RawName = "\t" + name
				fault += "/name-after-a-tab"
			case 3:
				// an EMPTY decoy (its header is all there is of it)
				dm.Data = nil
				decoyEmptyLast = true
			}
			// position: before or after the genuine member of that kind
			genuine := p.CtlMember
			if name[0] == 'd' {
				genuine = p.DataMember
			}
			for i, x := range ms {
				if x == genuine {
					at := i + 1
					if before {
						at = i
					}
					ms = append(ms[:at], append([]*arMember{dm}, ms[at:]...)...)
					break
				}
			}
			fault = "decoy/" + name + strings.TrimPrefix(fault, "none")
			r.Fault("stored.decoy-member")
			if decoyEmptyLast {
				// ... moved to the very end of the archive: the input ends with its header
				for i, x := range ms {
					if x == dm {
						ms = append(append(ms[:i:i], ms[i+1:]...), dm)
						break
					}
				}
				fault = "decoy/" + name + "/empty-last-member"
				r.Probe("empty-decoy-as-last-member")
			}
			if t.Bool(1, 3, "fault.decoy-header-eio") {
				// ... and the disk fails (for good, or once) exactly where the decoy's
				// header starts: an error there is not the end of the archive
				decoyHdrEIO = dm
				fault += "+header-read-fails"
				r.Probe("decoy-whose-header-read-fails")
			}
		case fp < nBytes+nDecoy+2:
			others := []string{}
			for _, ro := range c16Roles {
				if ro != role {
					others = append(others, ro)
				}
			}
			askRole = others[fp-nBytes-nDecoy]
			fault = "role-not-present"
			r.Fault("request.wrong-role")
		case fp < nBytes+nDecoy+4:
			krKind = 2 + (fp - nBytes - nDecoy - 2)
			fault = []string{"keyring-without-signer", "empty-keyring"}[krKind-2]
			r.Fault("request." + fault)
		case fp < nBytes+nDecoy+4+nAppend:
			// bytes appended to a signed member after signing
			m := []*arMember{p.BinMember, p.CtlMember, p.DataMember}[fp-nBytes-nDecoy-4]
			for i, x := range ms {
				if x == m {
					cp := *m
					cp.Data = append(append([]byte{}, m.Data...), []byte("appended\n")...)
					ms[i] = &cp
				}
			}
			fault = "bytes-appended/" + map[*arMember]string{p.BinMember: "debian-binary", p.CtlMember: "control", p.DataMember: "data"}[m]
			r.Fault("stored.bytes-appended")
		case fp >= nBytes+nDecoy+4+nAppend+nEIO+nTorn:
			// a signature that does not cover all three members (made over control
			// and data only, or over debian-binary and control only): not a debsig
			// signature of this package
			which := fp - (nBytes + nDecoy + 4 + nAppend + nEIO + nTorn)
			part := append(append([]byte{}, p.CtlMember.Data...), p.DataMember.Data...)
			if which == 1 {
				part = append(append([]byte{}, p.BinMember.Data...), p.CtlMember.Data...)
			}
			for i, x := range ms {
				if x == sigM {
					c := *sigM
					c.Data = detachSign(signer, part)
					ms[i] = &c
				}
			}
			fault = []string{"signature-omits-debian-binary", "signature-omits-data"}[which]
			r.Fault("stored.signature-over-fewer-members")
		case fp >= nBytes+nDecoy+4+nAppend+nEIO:
			// a decoy control.*/data.* member appended as the LAST member of a torn
			// file: the image ends inside the decoy's content
			name := []string{"data.tar.xz", "control.tar"}[fp-nBytes-nDecoy-4-nAppend-nEIO]
			dm := &arMember{Name: name, RawName: name, Mode: "100644", Data: t.Sub("c16.torn").Bytes(120 + t.Draw(200, "c16.tornlen"))}
			ms = append(ms, dm)
			tornBy = 1 + t.Draw(len(dm.Data)-1, "c16.tornby")
			fault = "decoy-last-member-torn/" + name
			r.Fault("stored.decoy-member-torn")
		default:
			// a failing disk range inside the control or the data member: loading may
			// fail, but whatever is accepted must still be the signed content
			m := []*arMember{p.CtlMember, p.DataMember}[fp-nBytes-nDecoy-4-nAppend]
			eioMember = m
			mustFail, either = false, true
			fault = "disk-eio/" + map[*arMember]string{p.CtlMember: "control", p.DataMember: "data"}[m]
		}
	} else {
		r.Stats["config.faultfree"]++
	}
	var keyring openpgp.EntityList
	switch krKind {
	case 0:
		keyring = openpgp.EntityList{signer}
	case 1:
		keyring = openpgp.EntityList{pgpKeys[1-signerIdx%2], signer}
	case 2:
		keyring = openpgp.EntityList{pgpKeys[(signerIdx+1)%2]}
		if signerIdx == 2 {
			keyring = openpgp.EntityList{pgpKeys[0], pgpKeys[1]}
		}
	case 3:
		keyring = openpgp.EntityList{}
	}
	if t.Bool(1, 4, "c16.expired-key-first") {
		// a key past its expiry date (never the signer) at the head of the keyring
		keyring = append(openpgp.EntityList{expiredOutsider()}, keyring...)
		r.Probe("keyring-starts-with-an-expired-key")
	}
	keyringSnap := append(openpgp.EntityList{}, keyring...)
	inKeyring := false
	for _, e := range keyring {
		if sameEntity(e, signer) {
			inKeyring = true
		}
	}
	// a third of the packages carry a second, genuine signature member for
	// another role, made by another key (the other keyring candidate): a check
	// for the asked role is decided by that role's member alone, whoever signed
	// the other one
	role2 := ""
	if t.Bool(1, 3, "c16.second-role") {
		for _, ro := range c16Roles {
			if ro != role && ro != askRole {
				role2 = ro
			}
		}
		signer2 := pgpKeys[0]
		if signerIdx == 0 {
			signer2 = pgpKeys[1]
		}
		sigM2 := &arMember{Name: "_gpg" + role2, RawName: "_gpg" + role2, Timestamp: 1_600_000_000, Mode: "100644", Data: detachSign(signer2, signed)}
		at := 1 // (right after debian-binary when the first signature member was replaced by a copy)
		for i, m := range ms {
			if m == sigM {
				at = i
			}
		}
		ms = append(ms[:at], append([]*arMember{sigM2}, ms[at:]...)...)
		r.Probe("second-role-signed-by-another-key")
	}
	img := renderAr(cloneMembers(ms))
	if tornBy > 0 && tornBy < len(img) {
		img = img[:len(img)-tornBy]
		if len(img)%2 == 1 && tornBy%2 == 0 {
			img = img[:len(img)-1]
		}
	}
	r.Event("workload", fault, fmt.Sprintf("ctl=%q data=%q role=%s ask=%s signer=%d keyring=%d bytes=%d", p.CtlCodec, p.DataCodec, role, askRole, signerIdx, krKind, len(img)))

	nloads := 1 + t.Draw(3, "c16.loads")
	accepted := 0
	mkAttempt := func(a *c16Attempt, verifyFirst bool, disk *simdisk.Disk) func() {
		return func() {
			d, err := deb.Load(disk, "signed.deb")
			if err != nil {
				a.loadErr = err
				return
			}
			var files []tarFile
			list := func() {
				files, a.listErr = readDataTar(d.Data)
			}
			if !verifyFirst {
				list()
			}
			a.signer, a.verErr = d.CheckDebsig(keyring, askRole)
			for i := range keyringSnap {
				if i >= len(keyring) || keyring[i] != keyringSnap[i] {
					a.seq = append(a.seq, fmt.Sprintf("CheckDebsig rewrote the caller's keyring: entry %d of %d is another key afterwards", i, len(keyringSnap)))
					break
				}
			}
			if verifyFirst {
				list()
				r.Probe("payload-read-after-verification")
			}
			if a.verErr == nil {
				// multi-step on the SAME loaded package: earlier answers must not
				// colour later ones (e.g. a per-object cache keyed by role only)
				again, errAgain := d.CheckDebsig(keyring, askRole)
				// (a repeated check may fail - nothing says a check can be repeated - but
				// it must not name another signer)
				if errAgain == nil && !sameEntity(again, a.signer) {
					a.seq = append(a.seq, "second CheckDebsig with the same keyring and role reports another signer")
				}
				if s, err := d.CheckDebsig(openpgp.EntityList{pgpKeys[3]}, askRole); err == nil {
					a.seq = append(a.seq, fmt.Sprintf("after a successful check, CheckDebsig with an UNRELATED keyring succeeded (signer reported: %v)", s != nil))
				}
				if _, err := d.CheckDebsig(openpgp.EntityList{}, askRole); err == nil {
					a.seq = append(a.seq, "after a successful check, CheckDebsig with an EMPTY keyring succeeded")
				}
				if _, err := d.CheckDebsig(nil, askRole); err == nil {
					a.seq = append(a.seq, "after a successful check, CheckDebsig with a nil keyring succeeded")
				}
				for _, ro := range c16Roles {
					if ro != role && ro != role2 {
						if _, err := d.CheckDebsig(keyring, ro); err == nil {
							a.seq = append(a.seq, "after a successful check, CheckDebsig for the absent role "+ro+" succeeded")
						}
					}
				}
				// a role that is a proper prefix of the present one (or empty) is not present either
				for _, ro := range []string{role[:len(role)-1], role[:1], "", role + "x"} {
					if _, err := d.CheckDebsig(keyring, ro); err == nil {
						a.seq = append(a.seq, fmt.Sprintf("CheckDebsig for the absent role %q succeeded (present: %q)", ro, role))
					}
				}
				r.Probe("repeated-checks-on-one-package")
			}
			a.ctlDiff = controlDiff(&d.Control, &p.Ctl.Model)
			if a.listErr == nil {
				a.dataDiffS = dataDiff(files, p.Data.Files, false)
			}
			d.Close()
		}
	}
	eioLo, eioHi := -1, -1
	if eioMember != nil {
		// locate the member in the final image
		ims := cloneMembers(ms)
		renderAr(ims)
		for i, x := range ms {
			if x == eioMember && len(x.Data) > 0 {
				eioLo = ims[i].DataOff + t.Draw(len(x.Data), "fault.eiooff")
				eioHi = eioLo + 1 + t.Draw(64, "fault.eiolen")
			}
		}
	}
	decoyHdrOff := -1
	if decoyHdrEIO != nil {
		ims := cloneMembers(ms)
		renderAr(ims)
		for i, x := range ms {
			if x == decoyHdrEIO {
				decoyHdrOff = ims[i].HdrOff
			}
		}
	}
	newDisk := func() *simdisk.Disk {
		disk := simdisk.New(r, "deb", img)
		disk.DrawProfile()
		disk.MaxCalls = 4*len(img) + 8000
		if decoyHdrOff >= 0 {
			disk.FailRange(decoyHdrOff, decoyHdrOff+1+t.Draw(60, "fault.decoyhdrlen"))
			disk.RangeOnce = t.Bool(1, 2, "fault.decoyhdronce")
		}
		if eioLo >= 0 {
			switch t.Draw(3, "fault.eiotransient") {
			case 0:
				disk.FailRange(eioLo, eioHi)
			case 1: // the range fails once: the read delivers the bytes before it plus EIO, a retry succeeds
				disk.FailRange(eioLo, eioHi)
				disk.RangeOnce = true
			case 2:
				disk.FailOnceAtCall(1 + t.Draw(40, "fault.eiocall"))
			}
		}
		return disk
	}
	attempts := make([]c16Attempt, nloads)
	firsts := make([]bool, nloads)
	// genuine packages may be loaded and verified by concurrent tasks, interleaved
	// at every disk read: several signed packages open at the same time
	twin := -1
	var twinImg []byte
	concurrent := fault == "none" && nloads > 1 && t.Bool(1, 2, "c16.concurrent")
	if concurrent {
		r.Probe("loads-interleaved")
		r.Sticky = t.Draw(3, "sched.sticky")
		if t.Bool(1, 2, "c16.twin") {
			// one of the concurrent callers handles a TWIN of the package in which
			// one byte of the control member differs: it must not verify, however
			// the calls interleave
			twin = t.Draw(nloads, "c16.twinidx")
			tms := cloneMembers(ms)
			for _, x := range tms {
				if x.Name == p.CtlMember.Name && len(x.Data) > 0 {
					x.Data = append([]byte{}, x.Data...)
					x.Data[t.Draw(len(x.Data), "c16.twinbyte")] ^= 0x20
				}
			}
			twinImg = renderAr(tms)
			r.Probe("tampered-twin-verified-concurrently")
		}
		for li := 0; li < nloads; li++ {
			firsts[li] = t.Bool(1, 2, "c16.verifyfirst")
			d := newDisk()
			if li == twin {
				d = simdisk.New(r, "twin", twinImg)
				d.MaxCalls = 4*len(twinImg) + 8000
			}
			attempts[li].task = r.Go(fmt.Sprintf("LV%d", li), mkAttempt(&attempts[li], firsts[li], d))
		}
		r.Sched()
	}
	for li := 0; li < nloads; li++ {
		if !concurrent {
			firsts[li] = t.Bool(1, 2, "c16.verifyfirst")
			attempts[li].task = r.Solo("loader+verifier", mkAttempt(&attempts[li], firsts[li], newDisk()))
		}
		a := attempts[li]
		verifyFirst := firsts[li]
		key := fault
		if taskTrouble(r, "C16", key, a.task) {
			return
		}
		ok := a.loadErr == nil && a.verErr == nil
		if li == twin {
			if ok {
				r.Violate("C16/accepted-tampered-package", "tampered-twin-beside-genuine", "a copy of the package with one control byte altered was loaded and verified (while the genuine package was being verified by a concurrent caller)")
			}
			continue
		}
		if ok {
			accepted++
			// soundness: whatever happened to the stored bytes, an accepted
			// package exposes exactly the signed content and the true signer
			if !sameEntity(a.signer, signer) {
				r.Violate("C16/wrong-signer", key, "verification succeeded but the reported signer is not the key that signed")
			}
			if !inKeyring {
				r.Violate("C16/signer-outside-keyring", key, "verification succeeded although the signing key is not in the supplied keyring")
			}
			if a.ctlDiff != "" {
				r.Violate("C16/verified-but-control-differs", key, "verification succeeded but the loaded control data is not the signed control data: %s", a.ctlDiff)
			}
			if a.listErr != nil && eioLo >= 0 {
				// an injected disk error surfaced while the payload was read: fine
			} else if a.listErr != nil {
				r.Violate("C16/verified-but-payload-unreadable", key+map[bool]string{true: "/verify-first", false: "/list-first"}[verifyFirst], "verification succeeded but the data tar then fails to read: %v", a.listErr)
			} else if a.dataDiffS != "" {
				r.Violate("C16/verified-but-payload-differs", key+map[bool]string{true: "/verify-first", false: "/list-first"}[verifyFirst], "verification succeeded but the exposed payload is not the signed payload: %s", a.dataDiffS)
			}
		}
		for _, s := range a.seq {
			if eioLo >= 0 && strings.HasPrefix(s, "second CheckDebsig") {
				continue // the repeated check may hit the injected disk error
			}
			r.Violate("C16/answer-depends-on-earlier-check", strings.SplitN(s, ":", 2)[0], "%s", s)
		}
		if mustFail && ok {
			r.Violate("C16/accepted-tampered-package", key, "load and verification both succeeded (member order #%d of %d) for fault %s", li+1, nloads, fault)
		}
		if !mustFail && !either && !ok {
			r.Violate("C16/rejected-genuine-package", key, "genuine signed package (signer in keyring, role present): load err=%v, verify err=%v", a.loadErr, a.verErr)
		}
	}
	if accepted > 0 {
		r.Probe("verification-succeeded")
	}
	// one loaded package, several callers checking it at the same time (interleaved
	// at every disk read): each gets the answer a lone caller gets
	if eioLo < 0 && decoyHdrOff < 0 && t.Bool(1, 3, "c16.shared-deb") {
		var d *deb.Deb
		var lerr error
		disk := simdisk.New(r, "shared", img)
		disk.MaxCalls = 8*len(img) + 16000
		if tk := r.Solo("loader", func() { d, lerr = deb.Load(disk, "signed.deb") }); taskTrouble(r, "C16", fault+"/shared", tk) {
			return
		}
		if lerr != nil || d == nil {
			return
		}
		type ans struct {
			ok     bool
			signer *openpgp.Entity
		}
		var lone ans
		if tk := r.Solo("lone-checker", func() {
			s, err := d.CheckDebsig(keyring, askRole)
			lone = ans{err == nil, s}
		}); taskTrouble(r, "C16", fault+"/shared", tk) {
			return
		}
		k := 2 + t.Draw(2, "c16.shared-n")
		res := make([]ans, k)
		tasks := make([]*rt.Task, k)
		r.Sticky = t.Draw(3, "sched.sticky")
		for i := 0; i < k; i++ {
			i := i
			tasks[i] = r.Go(fmt.Sprintf("CK%d", i), func() {
				s, err := d.CheckDebsig(keyring, askRole)
				res[i] = ans{err == nil, s}
			})
		}
		r.Sched()
		r.Probe("one-package-checked-by-concurrent-callers")
		for i := 0; i < k; i++ {
			if taskTrouble(r, "C16", fault+"/shared", tasks[i]) {
				return
			}
			if res[i].ok && mustFail {
				r.Violate("C16/accepted-tampered-package", fault+"/checked-by-concurrent-callers", "caller %d of %d concurrent CheckDebsig calls on one loaded package accepted it (fault %s); a lone caller: accepted=%v", i+1, k, fault, lone.ok)
				return
			}
			if res[i].ok != lone.ok || (res[i].ok && !sameEntity(res[i].signer, lone.signer)) {
				r.Violate("C16/answer-depends-on-concurrent-callers", fault, "caller %d of %d concurrent CheckDebsig calls on one loaded package: accepted=%v, a lone caller before them: accepted=%v", i+1, k, res[i].ok, lone.ok)
				return
			}
		}
		d.Close()
	}
}

func init() {
	register(&Prop{
		ID: "C16", Level: "fault_enumeration", Variant: "I", Design: "DESIGN.md §5 C16",
		Rule: "Each run builds a package (25 codec pairs over none/gz/xz/bz2/zst), signs debian-binary ‖ control.* ‖ data.* with one of three fixture keys (two keyring candidates, one outsider) as _gpg<role> (role origin/maint/archive, signature member anywhere after debian-binary; a third of the packages carry a second genuine signature member for another role made by the other keyring candidate), picks a keyring composition, and in the fault-injecting two thirds applies one fault: substitution of one byte of one of the three signed members or of the signature member, insertion of a decoy control.tar / control.tar.gz / control.tar.zst / data.tar / data.tar.gz member before or after the genuine one, a request for a role that is not present, a keyring without the signer, an empty keyring, a signature made over only two of the three members, a decoy whose header read fails (for good or once), a decoy as torn last member, a failing disk range. A third of the runs also have 2..3 concurrent callers check ONE loaded package. The package is loaded and verified 1..4 times under tape-chosen member orders and disk profiles, reading the payload before or after verification. The thorough tier sweeps every fault position (every byte of the four members, every decoy variant) of each sampled package whose members total <= 6000 bytes.",
		Run:  runC16, Sweep: true, SweepQuick: 0,
		QuickRuns: 40000, QuickSecs: 45, ThoroughRuns: 4000, ThoroughSecs: 1200,
		Components: map[string]interface{}{
			"real_instrumented": []string{"pault.ag/go/debian/deb (Load, CheckDebsig, findMember)", "pault.ag/go/debian/control (Unmarshal)"},
			"real":              []string{"golang.org/x/crypto/openpgp (CheckDetachedSignature; also used by the harness to MAKE the signatures)", "archive/tar, gzip, bzip2 (stdlib), xz, zstd decoders"},
			"stub":              []string{"simdisk.Disk with stored-state corruption"},
		},
		Assumptions: []string{"x/crypto/openpgp both makes and verifies the signatures: a bug common to both directions is invisible", "test keys are committed fixtures (key generation is not reproducible in Go); signing with a fixed signature time is byte-deterministic"},
	})
	propProbes["C16"] = []string{"second-role-signed-by-another-key", "empty-decoy-as-last-member", "data-member-stored-before-control-member", "keyring-starts-with-an-expired-key", "one-package-checked-by-concurrent-callers", "decoy-whose-header-read-fails", "tampered-twin-verified-concurrently", "debian-binary-with-further-lines", "loads-interleaved", "repeated-checks-on-one-package", "verification-succeeded", "payload-read-after-verification", "decoy-with-identical-name"}
}
