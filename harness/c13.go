package main

// C13  ar reader returns every member with exact metadata and bytes.
//
// Simulated: the archive lives on a simulated disk (io.ReaderAt).  Task I
// calls Next until end of archive; as soon as member j is returned a task R_j
// is spawned that reads, seeks, re-reads and ReadAt-s entry.Data.  Every disk
// read is a yield point, so reader operations straddle later Next calls.

import (
	"bytes"
	"fmt"
	"io"

	"pault.ag/go/debian/deb"
	"verifsim/rt"
	"verifsim/simdisk"
)

func overlaps(lo, hi, a, b int) bool { return a < hi && b > lo && lo >= 0 }

// c13Huge: a member whose size does not fit 31 (or 32) bits, on a sparse device,
// between two ordinary members.  Its metadata, a few of its bytes near the
// start, the bit boundaries and the end, and the member AFTER it must all be
// right: offsets and sizes are 64-bit quantities all the way.
func c13Huge(r *rt.Run) {
	t := r.T
	size := []int64{1<<31 - 1, 1 << 31, 1<<31 + 1, 1<<32 - 1, 1 << 32, 1<<32 + 7, 5_000_000_001}[t.Draw(7, "c13.huge.size")]
	fill := func(off int64) byte { return byte((off*2654435761)>>13) ^ byte(off) }
	first := &arMember{Name: "first", RawName: "first", Mode: "100644", Data: []byte("first member\n")}
	last := &arMember{Name: "after-huge", RawName: "after-huge/", Mode: "100644", Data: t.Sub("c13.huge.last").Bytes(1 + t.Draw(40, "c13.huge.lastlen"))}
	head := renderAr([]*arMember{first})
	hugeHdr := arHeader(&arMember{RawName: "huge.bin", Mode: "100644", Timestamp: 1_600_000_000}, fmt.Sprint(size))
	hugeOff := int64(len(head))
	dataOff := hugeOff + 60
	lastOff := dataOff + size + size%2
	tail := renderAr([]*arMember{last})[8:]
	dev := simdisk.NewSparse(r, "sparse", lastOff+int64(len(tail)), fill)
	dev.Segments[0] = head
	dev.Segments[hugeOff] = []byte(hugeHdr)
	if size%2 == 1 {
		dev.Segments[dataOff+size] = []byte{'\n'}
	}
	dev.Segments[lastOff] = tail
	r.Probe("member-larger-than-2GiB-on-a-sparse-device")
	var names []string
	var sizes []int64
	var end error
	var probeErr string
	task := r.Solo("iterator", func() {
		ar, err := deb.LoadAr(dev)
		if err != nil {
			end = err
			return
		}
		for i := 0; i < 6; i++ {
			e, err := ar.Next()
			if err != nil {
				end = err
				return
			}
			names = append(names, e.Name)
			sizes = append(sizes, e.Size)
			if e.Name == "huge.bin" && e.Data != nil && probeErr == "" {
				if e.Data.Size() != size {
					probeErr = fmt.Sprintf("Data.Size()=%d", e.Data.Size())
				}
				for _, at := range []int64{0, 1, 1<<31 - 2, 1<<31 - 1, 1 << 31, 1<<32 - 1, 1 << 32, size - 2, size - 1} {
					if at < 0 || at >= size {
						continue
					}
					var b [1]byte
					if n, err := e.Data.ReadAt(b[:], at); n != 1 || (err != nil && err != io.EOF) || b[0] != fill(dataOff+at) {
						probeErr = fmt.Sprintf("ReadAt(1 byte at %d) = (%d, %v) byte %#x, the device holds %#x there", at, n, err, b[0], fill(dataOff+at))
						break
					}
				}
				if p, err := e.Data.Seek(-1, io.SeekEnd); err != nil || p != size-1 {
					probeErr = fmt.Sprintf("Seek(-1, end) = (%d, %v), want %d", p, err, size-1)
				}
			}
			if e.Name == "after-huge" && e.Data != nil {
				if b, err := io.ReadAll(e.Data); err != nil || !bytes.Equal(b, last.Data) {
					probeErr = fmt.Sprintf("the member after the huge one reads as %d bytes (err=%v), want %d", len(b), err, len(last.Data))
				}
			}
		}
	})
	if task.Panic != nil {
		r.Violate("C13/panic", "huge-member", "panic: %v\n%s", task.Panic, trimStack(task.PanicStack))
		return
	}
	if task.Budget {
		r.Violate("C13/no-termination", "huge-member", "step budget exhausted")
		return
	}
	want := fmt.Sprint([]string{"first", "huge.bin", "after-huge"}, []int64{int64(len(first.Data)), size, int64(len(last.Data))})
	if got := fmt.Sprint(names, sizes); got != want || end != io.EOF {
		r.Violate("C13/metadata-mismatch", "huge-member", "archive with a %d-byte member: Next returned %s and then %v; it holds %s", size, got, end, want)
		return
	}
	if probeErr != "" {
		r.Violate("C13/wrong-bytes", "huge-member", "archive with a %d-byte member: %s", size, probeErr)
	}
}

func runC13(r *rt.Run, tier string) {
	t := r.T
	if t.Bool(1, 40, "c13.part-huge") {
		r.Stats["part.huge-member"]++
		c13Huge(r)
		return
	}
	maxM := 5
	if tier == "thorough" {
		maxM = 8
	}
	ms := genArMembers(t, r, maxM)
	many := t.Bool(1, 60, "c13.many")
	if many {
		// hundreds to thousands of tiny members: nothing in the format bounds their number
		sub := t.Sub("c13.many.stream")
		ms = ms[:0]
		for i, n := 0, 200+sub.Intn(2300); i < n; i++ {
			ms = append(ms, &arMember{Name: fmt.Sprintf("m%05d", i), RawName: fmt.Sprintf("m%05d", i), Mode: "100644", Timestamp: int64(i), Data: sub.Bytes(sub.Intn(4))})
		}
		r.Probe("archive-with-hundreds-of-members")
	}
	img := renderAr(ms)
	disk := simdisk.New(r, "archive", img)
	disk.DrawProfile()
	faulty := t.Bool(1, 4, "config.faulty")
	badLo, badHi := -1, -1
	transient := false
	if faulty && t.Bool(1, 3, "fault.transient") {
		// one ReadAt call fails once (EIO), the disk is healthy before and after;
		// the iterator retries the failed call, as a caller would
		transient = true
		faulty = false
		disk.FailOnceAtCall(1 + t.Draw(2+3*len(ms), "fault.call"))
		r.Stats["config.transient"]++
	}
	if faulty && len(img) > 8 {
		r.Stats["config.faulty"]++
		// place the bad range inside a header or inside member data
		if len(ms) > 0 {
			m := ms[t.Draw(len(ms), "fault.member")]
			if t.Bool(1, 3, "fault.inheader") || len(m.Data) == 0 {
				badLo = m.HdrOff + t.Draw(60, "fault.off")
			} else {
				badLo = m.DataOff + t.Draw(len(m.Data), "fault.off")
			}
		} else {
			badLo = t.Draw(len(img), "fault.off")
		}
		badHi = badLo + 1 + t.Draw(16, "fault.len")
		disk.FailRange(badLo, badHi)
	} else {
		r.Stats["config.faultfree"]++
	}
	r.Sticky = t.Draw(4, "sched.sticky")
	r.Event("workload", "ar", fmt.Sprintf("members=%d bytes=%d eofeager=%v bad=[%d,%d)", len(ms), len(img), disk.EOFEager, badLo, badHi))

	prof := "strict"
	if disk.EOFEager {
		prof = "eof-eager"
	}
	if transient {
		prof += "/transient-retry"
	}
	var iterTask *rt.Task
	var readers []*rt.Task
	var ents []*deb.ArEntry // every entry handed out, of both archives
	returned := 0
	nextOverlapped := false
	retriedNext := false
	refusedAfterError := false
	nextCalls := 0

	readerTask := func(j int, e *deb.ArEntry, m *arMember) func() {
		return func() {
			data := m.Data
			// a tape-chosen sequence of operations on the member's reader
			nops := 1 + t.Draw(5, "rd.nops")
			pos := 0
			for op := 0; op < nops; op++ {
				kind := t.Weighted([]int{4, 2, 2, 2}, "rd.op")
				nextBefore := nextCalls
				switch kind {
				case 0: // Read(n)
					n := 1 + t.Draw(max(1, min(len(data)+8, 300)), "rd.n")
					buf := make([]byte, n)
					got, err := e.Data.Read(buf)
					wantN := min(n, len(data)-pos)
					bad := overlaps(badLo, badHi, m.DataOff+pos, m.DataOff+pos+wantN)
					switch {
					case bad:
						if err == nil && got == wantN && !bytes.Equal(buf[:got], data[pos:pos+got]) {
							r.Violate("C13/wrong-bytes", "Read/eio", "member %d: Read over a failing disk range returned wrong bytes with nil error", j)
						}
						if got > 0 && !bytes.Equal(buf[:got], data[pos:pos+got]) {
							r.Violate("C13/wrong-bytes", "Read/eio-prefix", "member %d: bytes returned before the I/O error are not the member's bytes", j)
						}
						pos += got
					case wantN == 0:
						if got != 0 || err != io.EOF {
							r.Violate("C13/eof-expected", "Read/"+prof, "member %d (%d bytes) at end: Read returned (%d, %v), want (0, EOF)", j, len(data), got, err)
						}
					default:
						if got <= 0 || got > wantN || !bytes.Equal(buf[:got], data[pos:pos+got]) {
							r.Violate("C13/wrong-bytes", "Read/"+prof, "member %d: Read(%d) at %d returned n=%d err=%v with wrong content or count (want up to %d bytes)", j, n, pos, got, err, wantN)
						} else if err != nil && !(err == io.EOF && pos+got == len(data)) {
							r.Violate("C13/unexpected-error", "Read/"+prof, "member %d: Read(%d) at %d of %d returned n=%d err=%v", j, n, pos, len(data), got, err)
						}
						pos += max(got, 0)
					}
				case 1: // Seek(0) = rewind
					if p, err := e.Data.Seek(0, io.SeekStart); p != 0 || err != nil {
						r.Violate("C13/seek", "rewind", "member %d: Seek(0,0) = (%d,%v)", j, p, err)
					}
					pos = 0
				case 2: // ReadAt
					if len(data) == 0 {
						continue
					}
					off := t.Draw(len(data), "rd.off")
					n := 1 + t.Draw(min(len(data)-off, 300), "rd.n")
					buf := make([]byte, n)
					got, err := e.Data.ReadAt(buf, int64(off))
					bad := overlaps(badLo, badHi, m.DataOff+off, m.DataOff+off+n)
					if bad {
						if got > 0 && !bytes.Equal(buf[:got], data[off:off+got]) {
							r.Violate("C13/wrong-bytes", "ReadAt/eio-prefix", "member %d: wrong bytes before the I/O error", j)
						}
						if err == nil && got != n {
							r.Violate("C13/short-readat-without-error", "ReadAt/eio", "member %d", j)
						}
					} else if got != n || !bytes.Equal(buf, data[off:off+n]) || (err != nil && !(err == io.EOF && off+n == len(data))) {
						r.Violate("C13/wrong-bytes", "ReadAt/"+prof, "member %d: ReadAt(%d bytes at %d of %d) returned n=%d err=%v", j, n, off, len(data), got, err)
					}
				case 3: // full re-read from the start
					e.Data.Seek(0, io.SeekStart)
					all, err := io.ReadAll(e.Data)
					bad := overlaps(badLo, badHi, m.DataOff, m.DataOff+len(data))
					if bad {
						if !bytes.HasPrefix(data, all) {
							r.Violate("C13/wrong-bytes", "ReadAll/eio-prefix", "member %d: bytes read before the I/O error are not a prefix of the member", j)
						}
						if err == nil && len(all) != len(data) {
							r.Violate("C13/io-error-swallowed", "ReadAll", "member %d: %d of %d bytes and nil error over a failing range", j, len(all), len(data))
						}
					} else if err != nil || !bytes.Equal(all, data) {
						r.Violate("C13/wrong-bytes", "ReadAll/"+prof, "member %d: re-read returned %d bytes err=%v, want %d bytes", j, len(all), err, len(data))
					}
					pos = len(all)
				}
				if nextCalls != nextBefore {
					nextOverlapped = true
				}
			}
		}
	}

	// the object handed to the library may be bytes.Reader-like (ReaderAt plus
	// Read/Seek/Len) and may have been read sequentially before (magic sniffed,
	// checksummed): ReadAt-based iteration must not care
	var ra io.ReaderAt = disk
	if !faulty && !transient && t.Bool(1, 5, "c13.window") {
		// the archive is a window (io.SectionReader) into a larger device that
		// holds other members before and after it - a .deb inside a disk image,
		// a nested archive read through its member's Data: the window's end is
		// the end of the archive
		pre := renderAr(genArMembers(t, r, 2))
		post := renderAr(genArMembers(t, r, 2))[8:] // headers and data without the global magic
		if len(img)%2 == 1 {
			post = append([]byte{'\n'}, post...)
		}
		big := append(append(append([]byte{}, pre...), img...), post...)
		disk = simdisk.New(r, "device", big)
		disk.DrawProfile()
		ra = io.NewSectionReader(disk, int64(len(pre)), int64(len(img)))
		prof += "/window"
		r.Probe("archive-is-a-window-into-a-larger-device")
	} else if !faulty && !transient && t.Bool(1, 5, "c13.argtype") {
		ra = typedReaderAt(r, img, disk)
	} else if t.Bool(1, 4, "c13.seqflavour") {
		s := simdisk.Seq{Disk: disk}
		buf := make([]byte, []int{8, 64, len(img) + 1}[t.Draw(3, "c13.sniff")])
		s.Read(buf)
		ra = s
		r.Probe("reader-with-sequential-state")
	}
	var loadErr, nextErr error
	iterTask = r.Go("I", func() {
		ar, err := deb.LoadAr(ra)
		if err != nil && transient {
			ar, err = deb.LoadAr(ra)
		}
		if err != nil {
			loadErr = err
			return
		}
		for i := 0; i <= len(ms)+2; i++ {
			e, err := ar.Next()
			nextCalls++
			if err != nil && err != io.EOF && transient && !retriedNext {
				retriedNext = true
				r.Probe("Next-retried-after-transient-error")
				e, err = ar.Next()
				nextCalls++
				if err != nil && err != io.EOF {
					// an iterator may refuse to go on after an I/O error: nothing more is claimed
					refusedAfterError = true
					nextErr = err
					return
				}
			}
			if err != nil {
				nextErr = err
				return
			}
			j := returned
			returned++
			if j >= len(ms) {
				r.Violate("C13/extra-member", prof, "Next returned a member #%d (%q) beyond the %d in the archive", j, e.Name, len(ms))
				return
			}
			m := ms[j]
			if e.Name != m.Name || e.Timestamp != m.expTimestamp() || e.OwnerID != m.expUID() || e.GroupID != m.expGID() || e.FileMode != m.expMode() || e.Size != int64(len(m.Data)) {
				r.Violate("C13/metadata-mismatch", prof, "member %d: got {%q ts=%d uid=%d gid=%d mode=%q size=%d} want {%q ts=%d uid=%d gid=%d mode=%q size=%d} (raw name %q)", j,
					e.Name, e.Timestamp, e.OwnerID, e.GroupID, e.FileMode, e.Size, m.Name, m.expTimestamp(), m.expUID(), m.expGID(), m.expMode(), len(m.Data), m.RawName)
			}
			if e.Data == nil || e.Data.Size() != int64(len(m.Data)) {
				r.Violate("C13/metadata-mismatch", prof+"/data-size", "member %d: Data reader missing or of wrong size", j)
				continue
			}
			ents = append(ents, e)
			if !transient && !many {
				readers = append(readers, r.Go(fmt.Sprintf("R%d", j), readerTask(j, e, m)))
			}
			if j >= 2 && len(ms[j-1].Data)%2 == 1 {
				r.Probe("third-member-after-an-odd-one")
			}
		}
		nextErr = fmt.Errorf("iterator did not end")
	})
	// a second, unrelated archive iterated by another caller at the same time
	var ms2 []*arMember
	var got2 []string
	var end2 error
	var iter2 *rt.Task
	if !faulty && !transient && t.Bool(1, 3, "c13.second-archive") {
		ms2 = genArMembers(t, r, 4)
		img2 := renderAr(ms2)
		d2 := simdisk.New(r, "archive2", img2)
		d2.YieldAfter = true
		disk.YieldAfter = true
		r.Probe("two-archives-iterated-concurrently")
		iter2 = r.Go("I2", func() {
			ar, err := deb.LoadAr(d2)
			if err != nil {
				end2 = err
				return
			}
			for i := 0; i <= len(ms2)+2; i++ {
				e, err := ar.Next()
				if err != nil {
					end2 = err
					return
				}
				got2 = append(got2, fmt.Sprintf("%s/%d", e.Name, e.Size))
				if e.Data != nil {
					ents = append(ents, e)
				}
			}
		})
	}
	r.Sched()
	if iter2 != nil {
		if iter2.Panic != nil {
			r.Violate("C13/panic", "second-iterator", "panic: %v", iter2.Panic)
			return
		}
		want2 := []string{}
		for _, m := range ms2 {
			want2 = append(want2, fmt.Sprintf("%s/%d", m.Name, len(m.Data)))
		}
		if fmt.Sprint(got2) != fmt.Sprint(want2) || end2 != io.EOF {
			r.Violate("C13/metadata-mismatch", "second-archive-iterated-concurrently", "a second archive iterated at the same time returned %v (end: %v), it holds %v", got2, end2, want2)
		}
	}

	if iterTask.Panic != nil {
		r.Violate("C13/panic", "iterator", "panic: %v\n%s", iterTask.Panic, trimStack(iterTask.PanicStack))
		return
	}
	for _, rt := range readers {
		if rt.Panic != nil {
			r.Violate("C13/panic", "reader", "panic: %v\n%s", rt.Panic, trimStack(rt.PanicStack))
			return
		}
	}
	if nextOverlapped {
		r.Probe("reader-op-overlapped-a-Next")
	}
	if disk.EOFEager && r.Stats["disk.eager_eof_returned"] > 0 {
		r.Probe("eof-eager-full-read-at-end-of-file")
	}

	// every member's reader is its own: a position set on one is not seen on any
	// other (empty members included, members of the other archive included)
	if !faulty && !transient && len(ents) > 1 && !many {
		task := r.Solo("seek-independence", func() {
			for i, e := range ents {
				e.Data.Seek(int64(3+2*i), io.SeekStart)
			}
			for i, e := range ents {
				if p, err := e.Data.Seek(0, io.SeekCurrent); err != nil || p != int64(3+2*i) {
					r.Violate("C13/readers-not-independent", "seek-position", "reader %d (member %q, %d bytes) was positioned at %d; after positioning the other members' readers it stands at %d (err=%v)", i, e.Name, e.Size, 3+2*i, p, err)
					return
				}
			}
			for i, e := range ents {
				e.Data.Seek(0, io.SeekStart)
				if b, err := io.ReadAll(e.Data); err != nil || int64(len(b)) != e.Size {
					r.Violate("C13/wrong-bytes", "ReadAll/after-seeks", "reader %d (member %q): %d bytes, err=%v, want %d", i, e.Name, len(b), err, e.Size)
					return
				}
			}
		})
		if task.Panic != nil {
			r.Violate("C13/panic", "seek-independence", "panic: %v\n%s", task.Panic, trimStack(task.PanicStack))
			return
		}
		r.Probe("seek-positions-of-all-readers-compared")
	}

	// how the iteration must have ended
	// Next(j) touches header j and (to make sure the member is complete) the
	// last data byte of member j
	hdrBad := func(j int) bool {
		if j >= len(ms) {
			return false
		}
		m := ms[j]
		if overlaps(badLo, badHi, m.HdrOff, m.HdrOff+60) {
			return true
		}
		return len(m.Data) > 0 && overlaps(badLo, badHi, m.DataOff+len(m.Data)-1, m.DataOff+len(m.Data))
	}
	magicBad := overlaps(badLo, badHi, 0, 8)
	if loadErr != nil {
		if !magicBad {
			r.Violate("C13/load-error", prof, "LoadAr rejected a well-formed archive of %d members (%d bytes): %v", len(ms), len(img), loadErr)
		}
		return
	}
	if refusedAfterError {
		return
	}
	firstBad := -1
	for j := range ms {
		if hdrBad(j) {
			firstBad = j
			break
		}
	}
	if firstBad >= 0 {
		if returned > firstBad {
			r.Violate("C13/member-from-failed-header", prof, "member %d was returned although its header (or last data byte) lies on the failing disk range", firstBad)
		} else if returned < firstBad {
			r.Violate("C13/members-missing", prof+"/eio", "iteration stopped after %d members; the I/O error is in header %d (err=%v)", returned, firstBad, nextErr)
		} else if nextErr == io.EOF {
			r.Violate("C13/io-error-reported-as-end", prof, "header %d failed with EIO but Next reported end of archive", firstBad)
		}
		return
	}
	if returned != len(ms) {
		r.Violate("C13/members-missing", prof, "Next returned %d of %d members, then %v (last member size %d)", returned, len(ms), nextErr, lastSize(ms))
		return
	}
	if nextErr != io.EOF {
		r.Violate("C13/end-of-archive", prof, "after the last member Next returned %v, want io.EOF", nextErr)
	}
}

func lastSize(ms []*arMember) int {
	if len(ms) == 0 {
		return -1
	}
	return len(ms[len(ms)-1].Data)
}

func init() {
	register(&Prop{
		ID: "C13", Level: "exploration", Variant: "N", Design: "DESIGN.md §5 C13",
		Rule:      "Each run draws an archive from a member-list model (0..8 members; names of 1..16 bytes with or without trailing '/', sizes 0, 1, odd, even, up to 64 KiB; blank or filled numeric columns; binary data incl. bytes that look like headers; odd last member with or without pad byte), stores it on a simulated disk with a strict or eof-eager ReaderAt profile, and interleaves one iterator task with one reader task per returned member (Read, Seek, ReadAt, full re-read) at every disk read. A quarter of the runs make a byte range of the disk fail with EIO.",
		Run:       runC13,
		QuickRuns: 400000, QuickSecs: 30, ThoroughRuns: 4_000_000, ThoroughSecs: 900,
		Components: map[string]interface{}{
			"real": []string{"pault.ag/go/debian/deb (LoadAr, Ar.Next, ArEntry.Data)", "io.SectionReader (stdlib)"},
			"stub": []string{"simdisk.Disk (io.ReaderAt: strict / eof-eager end-of-file behaviour, EIO on a byte range)"},
		},
		Assumptions: []string{"per-operation equality with the sequential member-list model is the complete check because iterator and member readers are independent objects over one immutable ReaderAt (no linearizability search needed)"},
	})
	propProbes["C13"] = []string{"archive-with-hundreds-of-members", "member-larger-than-2GiB-on-a-sparse-device", "archive-is-a-window-into-a-larger-device", "seek-positions-of-all-readers-compared", "zero-length-member", "odd-member-followed-by-another", "16-byte-name", "third-member-after-an-odd-one", "eof-eager-full-read-at-end-of-file", "reader-op-overlapped-a-Next", "odd-last-member-without-pad", "blank-numeric-column", "data-looks-like-header", "name-with-trailing-slash", "name-with-interior-slash", "zero-padded-numeric-columns", "Next-retried-after-transient-error", "reader-with-sequential-state", "two-archives-iterated-concurrently"}
}
