package main

// C15  ar and .deb readers terminate and stay consistent on arbitrary bytes.
//
// Simulated: a valid archive / package is stored on the simulated disk and
// then damaged by stored-state faults (header columns overwritten, magic
// bytes flipped, truncation = torn file, members duplicated / reordered /
// renamed to collide, random byte flips, raw bytes after the global magic).
// Instrumented variant: logical steps are counted at every disk read and every
// loop head, so a reader that does not terminate exhausts the step budget
// deterministically; the loader's map scans run under tape-chosen orders.

import (
	"archive/tar"
	"errors"
	"fmt"
	"io"
	"sort"
	"strconv"
	"strings"
	"syscall"
	"verifsim/simos"

	"pault.ag/go/debian/deb"
	"verifsim/rt"
	"verifsim/simdisk"
)

var c15Columns = []struct {
	name    string
	off, ln int
}{{"timestamp", 16, 12}, {"uid", 28, 6}, {"gid", 34, 6}, {"size", 48, 10}, {"name", 0, 16}, {"mode", 40, 8}}

var c15ColumnValues = []string{"-1", "-60", "-61", "-200", "9999999999", "", "12ab", "+5", "0x10", "007"}

// damageImage applies one stored-state fault; returns the new image and a label.
func damageImage(t *rt.Tape, r *rt.Run, ms []*arMember, img []byte) ([]byte, string) {
	out := append([]byte(nil), img...)
	kinds := []string{"column", "magic", "truncate", "duplicate", "reorder", "collide", "flips", "raw", "none"}
	kind := kinds[t.Weighted([]int{6, 3, 5, 2, 2, 2, 3, 2, 1}, "dmg.kind")]
	if len(ms) == 0 && kind != "raw" && kind != "truncate" && kind != "none" {
		kind = "raw"
	}
	switch kind {
	case "column":
		m := ms[t.Draw(len(ms), "dmg.member")]
		c := c15Columns[t.Weighted([]int{1, 1, 1, 5, 2, 1}, "dmg.col")]
		v := c15ColumnValues[t.Draw(len(c15ColumnValues), "dmg.val")]
		if c.name == "name" {
			// name columns other ar dialects give a meaning to: BSD "#1/<n>" (the name
			// is the first n bytes of the data), SysV "/<n>" and "//" (name table)
			v = []string{"#1/1", "#1/20", "#1/1024", fmt.Sprintf("#1/%d", len(m.Data)), fmt.Sprintf("#1/%d", len(m.Data)+1), fmt.Sprintf("#1/%d", len(m.Data)+16), "/0", "//", "/", "#1/-4"}[t.Draw(10, "dmg.nameval")]
		}
		copy(out[m.HdrOff+c.off:m.HdrOff+c.off+c.ln], []byte(padTo(v, c.ln)))
		r.Fault("stored.column-" + c.name)
		return out, fmt.Sprintf("column %s=%q", c.name, v)
	case "magic":
		m := ms[t.Draw(len(ms), "dmg.member")]
		switch t.Draw(8, "dmg.magic") {
		case 0:
			out[m.HdrOff+58] = 'X'
		case 1:
			out[m.HdrOff+59] = 'X'
		case 2:
			out[m.HdrOff+58], out[m.HdrOff+59] = 'X', 'Y'
		case 3:
			out[m.HdrOff+59] = ' '
		case 4:
			out[m.HdrOff+59] = '\r'
		case 5:
			out[m.HdrOff+58], out[m.HdrOff+59] = ' ', '`'
		case 6:
			out[m.HdrOff+58], out[m.HdrOff+59] = '\n', '`'
		case 7:
			out[m.HdrOff+59] = '\t'
		}
		r.Fault("stored.header-magic")
		return out, "header magic"
	case "truncate":
		var k int
		if len(ms) > 0 {
			m := ms[t.Draw(len(ms), "dmg.member")]
			switch t.Weighted([]int{2, 3, 1, 1, 1}, "dmg.where") {
			case 0: // inside the header
				k = m.HdrOff + t.Draw(60, "dmg.off")
			case 1: // inside the data
				k = m.DataOff + t.Draw(max(1, len(m.Data)), "dmg.off")
			case 2: // exactly after the data (pad byte missing)
				k = m.DataOff + len(m.Data)
			case 3: // inside the global magic
				k = t.Draw(8, "dmg.off")
			case 4:
				k = t.Draw(len(img)+1, "dmg.off")
			}
		} else {
			k = t.Draw(len(img)+1, "dmg.off")
		}
		if k > len(out) {
			k = len(out)
		}
		r.Fault("stored.truncate")
		return out[:k], fmt.Sprintf("truncate at %d", k)
	case "duplicate":
		i := t.Draw(len(ms), "dmg.member")
		ns := append(append(append([]*arMember{}, ms[:i+1]...), ms[i]), ms[i+1:]...)
		r.Fault("stored.duplicate-member")
		return renderAr(cloneMembers(ns)), "duplicate member"
	case "reorder":
		p := t.Perm(len(ms), "dmg.perm")
		ns := make([]*arMember, len(ms))
		for i, j := range p {
			ns[i] = ms[j]
		}
		r.Fault("stored.reorder-members")
		return renderAr(cloneMembers(ns)), "reorder members"
	case "collide":
		// a second control.* / data.* member under a colliding name
		ns := cloneMembers(ms)
		names := []string{"control.tar", "control.tar.gz", "data.tar", "data.tar.gz", "control.tar.xz", "debian-binary", "control.sig", "control.md5", "control.", "data.img", "data.cpio.gz"}
		extra := &arMember{RawName: names[t.Draw(len(names), "dmg.name")], Mode: "100644", Data: t.Sub("dmg.data").Bytes(t.Range(0, 80, "dmg.len"))}
		extra.Name = extra.RawName
		pos := t.Draw(len(ns)+1, "dmg.pos")
		ns = append(ns[:pos], append([]*arMember{extra}, ns[pos:]...)...)
		r.Fault("stored.colliding-member")
		return renderAr(ns), "colliding member " + extra.Name
	case "flips":
		n := 1 + t.Draw(4, "dmg.nflips")
		for i := 0; i < n && len(out) > 8; i++ {
			// bias into headers
			var p int
			if len(ms) > 0 && t.Bool(2, 3, "dmg.inhdr") {
				p = ms[t.Draw(len(ms), "dmg.member")].HdrOff + t.Draw(60, "dmg.off")
			} else {
				p = t.Draw(len(out), "dmg.off")
			}
			if p < len(out) {
				out[p] = "0123456789- `\nX\x00/"[t.Draw(17, "dmg.byte")]
			}
		}
		r.Fault("stored.byte-flips")
		return out, "byte flips"
	case "raw":
		n := t.Range(0, 400, "dmg.rawlen")
		alphabet := []byte("0123456789- `\n/ab\x00")
		raw := []byte(arMagic)
		for i := 0; i < n; i++ {
			raw = append(raw, alphabet[t.Draw(len(alphabet), "dmg.rawb")])
		}
		r.Fault("stored.raw-bytes")
		return raw, "raw bytes"
	}
	return out, "none"
}

func cloneMembers(ms []*arMember) []*arMember {
	out := make([]*arMember, len(ms))
	for i, m := range ms {
		c := *m
		out[i] = &c
	}
	return out
}

type arWalk struct {
	names   []string
	sizes   []int64
	end     string // "eof" | "error" | "limit"
	nexts   int
	loadErr bool
}

// names2 is the outcome without the call count (which may differ by schedule).
func (w arWalk) names2() string {
	return fmt.Sprintf("%v %v end=%s loadErr=%v", w.names, w.sizes, w.end, w.loadErr)
}

func (w arWalk) String() string {
	return fmt.Sprintf("%v %v end=%s loadErr=%v", w.names, w.sizes, w.end, w.loadErr)
}

// walkAr iterates the archive on the disk and checks the per-member clauses.
func walkAr(r *rt.Run, img []byte, disk io.ReaderAt, label string) (w arWalk, task *rt.Task) {
	task = r.Solo("iterator", walkBody(r, img, disk, label, &w))
	return
}

// walkBody is the iteration itself, usable as a solo task or as one of several
// concurrent tasks.
func walkBody(r *rt.Run, img []byte, disk io.ReaderAt, label string, wp *arWalk) func() {
	limit := len(img)/60 + 1
	return func() {
		w := arWalk{}
		defer func() { *wp = w }()
		ar, err := deb.LoadAr(disk)
		if err != nil {
			w.loadErr = true
			w.end = "error"
			return
		}
		for {
			if w.nexts > limit {
				w.end = "limit"
				return
			}
			e, err := ar.Next()
			w.nexts++
			if err == io.EOF {
				w.end = "eof"
				return
			}
			if err != nil {
				w.end = "error"
				// a caller that asks again after an error (as one would after a
				// transient one): whatever is still returned must come from a header
				// position of this input - the chain of headers starting at offset 8 -
				// never from bytes inside a member's data
				for k := 0; k < 3; k++ {
					e2, err2 := ar.Next()
					w.nexts++
					if err2 != nil || e2 == nil || e2.Data == nil {
						if err2 == io.EOF {
							break
						}
						continue
					}
					r.Probe("member-returned-after-an-error")
					_, off2, _ := e2.Data.Outer()
					if !headerChain(img)[int(off2)-60] {
						r.Violate("C15/member-not-from-a-header", "Next-after-error", "[%s] after Next had failed, a further Next returned member %q (size %d) whose header would lie at offset %d - not a header position of this input (bytes inside a member's data were taken for a header)", label, e2.Name, e2.Size, off2-60)
						return
					}
				}
				return
			}
			w.names = append(w.names, e.Name)
			w.sizes = append(w.sizes, e.Size)
			if e.Size < 0 {
				r.Violate("C15/negative-size", "Next", "[%s] member %q returned with Size=%d", label, e.Name, e.Size)
				continue
			}
			if e.Data == nil {
				r.Violate("C15/no-reader", "Next", "[%s] member %q has no Data reader", label, e.Name)
				continue
			}
			_, off, n := e.Data.Outer()
			if n != e.Size {
				r.Violate("C15/reader-size", "Next", "[%s] member %q: Size=%d but its reader spans %d bytes", label, e.Name, e.Size, n)
			}
			// the member's bytes lie inside the data area of ONE header of the input's
			// header chain (a reader that understands long-name dialects may start
			// after the name, inside that area), and that header carries the magic
			if off < 68 || off > int64(len(img)) {
				r.Violate("C15/header-outside-archive", "Next", "[%s] member %q: data offset %d implies a header outside the %d-byte input", label, e.Name, off, len(img))
			} else if h, ok := chainOwner(img, off, n); !ok {
				r.Violate("C15/header-magic", "Next", "[%s] member %q (data at %d, %d bytes) does not lie inside the data area of any header of the input's header chain", label, e.Name, off, n)
			} else if img[h+58] != '`' || img[h+59] != '\n' {
				r.Violate("C15/header-magic", "Next", "[%s] member %q was returned from a header at %d whose magic bytes are %q, not \"`\\n\"", label, e.Name, h, string(img[h+58:h+60]))
			}
			if e.Size <= int64(len(img))+1024 {
				b, err := io.ReadAll(e.Data)
				if err != nil || int64(len(b)) != e.Size {
					r.Violate("C15/reader-delivers-wrong-length", "Next", "[%s] member %q: Size=%d but its reader delivered %d bytes (err=%v); input is %d bytes, data starts at %d", label, e.Name, e.Size, len(b), err, len(img), off)
				}
			} else {
				r.Violate("C15/reader-delivers-wrong-length", "Next/huge", "[%s] member %q: Size=%d exceeds the %d-byte input", label, e.Name, e.Size, len(img))
			}
		}
	}
}

// chainOwner finds the header of the input's header chain whose data area
// [h+60, h+60+size] contains the n bytes at off.
func chainOwner(img []byte, off, n int64) (int, bool) {
	h := 8
	for h+60 <= len(img) {
		sz, err := strconv.Atoi(strings.TrimSpace(string(img[h+48 : h+58])))
		if err != nil || sz < 0 {
			// the chain ends here; a member of this header has no known extent
			if off >= int64(h+60) {
				return h, n >= 0
			}
			return 0, false
		}
		if off >= int64(h+60) && off+max64(n, 0) <= int64(h+60+sz) {
			return h, true
		}
		h += 60 + sz + sz%2
	}
	return 0, false
}

func max64(a, b int64) int64 {
	if a > b {
		return a
	}
	return b
}

// headerChain returns the offsets at which member headers of the input lie:
// offset 8, then each header's offset plus 60 plus its (even-padded) size, for
// as long as the size column reads as a number.
func headerChain(img []byte) map[int]bool {
	chain := map[int]bool{}
	off := 8
	for off+60 <= len(img) {
		chain[off] = true
		n, err := strconv.Atoi(strings.TrimSpace(string(img[off+48 : off+58])))
		if err != nil || n < 0 {
			break
		}
		off += 60 + n + n%2
	}
	return chain
}

type debOutcome struct {
	ok       bool
	ctlExt   string
	dataExt  string
	pkg, ver string
	members  string
}

func loadOutcomeOf(r *rt.Run, img []byte, label string) (debOutcome, *rt.Task) {
	var o debOutcome
	disk := simdisk.New(r, "deb", img)
	disk.DrawProfile()
	disk.MaxCalls = 4*len(img) + 4000
	task := r.Solo("loader", func() {
		d, err := deb.Load(disk, "x.deb")
		if err != nil || d == nil {
			return
		}
		o.ok = true
		o.ctlExt, o.dataExt = d.ControlExt, d.DataExt
		o.pkg, o.ver = d.Control.Package, d.Control.Version.String()
		names := []string{}
		for n := range d.ArContent {
			names = append(names, n)
		}
		sort.Strings(names)
		o.members = strings.Join(names, ",")
		d.Close()
	})
	return o, task
}

func runC15(r *rt.Run, tier string) {
	t := r.T
	r.EnableMapOrder(true)
	target := []string{"ar", "deb"}[t.Weighted([]int{3, 2}, "c15.target")]
	var ms []*arMember
	var img []byte
	if target == "ar" {
		ms = genArMembers(t, r, 5)
		img = renderAr(ms)
	} else {
		p := genDeb(t, r, t.Draw(4, "deb.pair"), []string{"", "gz"})
		ms, img = p.Members, p.Image
	}
	bad, what := damageImage(t, r, ms, img)
	r.Stats["target."+target]++
	r.Event("workload", target, fmt.Sprintf("members=%d bytes=%d damage=%s -> %d bytes", len(ms), len(img), what, len(bad)))
	r.StepBudget = int64(1000 * (len(bad) + 100))

	// the ar iterator, twice (determinism)
	beyondErr := t.Bool(1, 4, "c15.beyonderr")
	if beyondErr {
		r.Probe("reader-fails-beyond-the-end-with-a-non-EOF-error")
	}
	seqFlavour := t.Bool(1, 3, "c15.seqflavour")
	if seqFlavour {
		r.Probe("reader-with-sequential-state")
	}
	// the second time the same bytes may be a window (io.SectionReader) into a
	// larger device that goes on with further well-formed members: the input ends
	// where the window ends
	windowFlavour := !seqFlavour && t.Bool(1, 4, "c15.window")
	var walks []arWalk
	for i := 0; i < 2; i++ {
		disk := simdisk.New(r, "archive", bad)
		disk.DrawProfile()
		disk.BeyondEndErr = beyondErr && !windowFlavour
		disk.MaxCalls = 4*len(bad) + 4000
		var ra io.ReaderAt = disk
		if windowFlavour && i == 1 {
			pre := renderAr(genArMembers(t, r, 2))
			post := renderAr(genArMembers(t, r, 3))[8:]
			if k := t.Draw(3, "c15.window.gap"); k > 0 {
				post = append([]byte("\n\n")[:k], post...)
			}
			big := append(append(append([]byte{}, pre...), bad...), post...)
			dev := simdisk.New(r, "device", big)
			dev.DrawProfile()
			dev.MaxCalls = 4*len(big) + 4000
			ra = io.NewSectionReader(dev, int64(len(pre)), int64(len(bad)))
			r.Probe("input-is-a-window-into-a-larger-device")
		}
		if seqFlavour {
			// a bytes.Reader-like object (ReaderAt + Read/Seek/Len); between the
			// loads the caller reads it sequentially (sniffs the magic, or
			// checksums the whole file) - ReadAt-based loading must not care
			s := simdisk.Seq{Disk: disk}
			if i > 0 || t.Bool(1, 2, "c15.sniff-first") {
				buf := make([]byte, []int{8, 64, len(bad) + 1}[t.Draw(3, "c15.sniff")])
				s.Read(buf)
			}
			ra = s
		}
		w, task := walkAr(r, bad, ra, what)
		if task.Panic != nil {
			r.Violate("C15/panic", "ar", "[%s] panic: %v\n%s", what, task.Panic, trimStack(task.PanicStack))
			return
		}
		if task.Budget {
			r.Violate("C15/no-termination", "ar", "[%s] iterating did not finish within the step budget (%d Next calls so far)", what, w.nexts)
			return
		}
		if w.end == "limit" {
			r.Violate("C15/too-many-steps", "ar", "[%s] %d Next calls on %d input bytes (bound %d) and still no end of archive or error; members so far %v sizes %v", what, w.nexts, len(bad), len(bad)/60+1, clipStrs(w.names), w.sizes[:min(len(w.sizes), 6)])
			return
		}
		walks = append(walks, w)
	}
	if walks[0].String() != walks[1].String() {
		r.Violate("C15/nondeterministic-outcome", "ar", "[%s] iterating the same bytes twice gave %s and then %s", what, walks[0], walks[1])
	}
	// two archives iterated by two concurrent callers, interleaved at disk reads
	// and at the buggified loop heads / function entries of the reader: each
	// must see exactly what it sees alone
	if target == "ar" && t.Bool(1, 3, "c15.concurrent") {
		soloIntact, task := walkAr(r, img, simdisk.New(r, "intact", img), "intact")
		soloBad, task2 := walkAr(r, bad, simdisk.New(r, "bad-solo", bad), what)
		if task.Panic == nil && !task.Budget && task2.Panic == nil && !task2.Budget && soloBad.end != "limit" {
			sites := map[int]bool{}
			sub := t.Sub("c15.sites")
			for i := 0; i < rt.TotalSites(); i++ {
				if sub.Intn(3) == 0 {
					sites[i] = true
				}
			}
			r.SetYieldSites(sites)
			r.Sticky = t.Draw(2, "sched.sticky")
			var wa, wb arWalk
			da, db := simdisk.New(r, "archiveA", bad), simdisk.New(r, "archiveB", img)
			da.MaxCalls, db.MaxCalls = 4*len(bad)+4000, 4*len(img)+4000
			ta := r.Go("WA", walkBody(r, bad, da, what+"/concurrent", &wa))
			tb := r.Go("WB", walkBody(r, img, db, "intact/concurrent", &wb))
			r.Sched()
			r.SetYieldSites(nil)
			r.Probe("two-archives-iterated-concurrently")
			if ta.Panic != nil || tb.Panic != nil {
				r.Violate("C15/panic", "ar/concurrent", "panic while two archives were iterated concurrently: %v %v", ta.Panic, tb.Panic)
				return
			}
			if wa.names2() != soloBad.names2() || wb.names2() != soloIntact.names2() {
				r.Violate("C15/nondeterministic-outcome", "ar/concurrent-callers", "[%s] iterated alone: %s and %s; iterated concurrently with each other: %s and %s", what, soloBad, soloIntact, wa, wb)
			}
		}
	}
	if walks[0].end == "error" {
		r.Probe("iteration-ended-in-error")
	} else {
		r.Probe("iteration-ended-in-eof")
	}

	// the same (intact) package loaded again and again: closed twice, then by two
	// callers at once - every load must list the same payload
	if target == "deb" && t.Bool(1, 3, "c15.reload") {
		listing := func(res *string) func() {
			return func() {
				d, err := deb.Load(simdisk.New(r, "deb", img), "x.deb")
				if err != nil {
					*res = "load error: " + err.Error()
					return
				}
				files, ferr := readDataTar(d.Data)
				names := []string{}
				for _, f := range files {
					names = append(names, fmt.Sprintf("%s/%d", f.Name, len(f.Body)))
				}
				*res = fmt.Sprintf("%v err=%v", names, ferr)
				d.Close()
			}
		}
		var ref, a, b string
		if tk := r.Solo("reload-ref", listing(&ref)); tk.Panic != nil {
			r.Violate("C15/panic", "deb.Load/reload", "panic: %v", tk.Panic)
			return
		}
		r.Solo("double-close", func() {
			if d, err := deb.Load(simdisk.New(r, "deb", img), "x.deb"); err == nil {
				d.Close()
				d.Close()
			}
		})
		ta := r.Go("RA", listing(&a))
		tb := r.Go("RB", listing(&b))
		r.Sched()
		r.Probe("package-reloaded-after-double-close")
		if ta.Panic != nil || tb.Panic != nil {
			r.Violate("C15/panic", "deb.Load/reload", "panic while the same package was loaded by two callers: %v %v", ta.Panic, tb.Panic)
			return
		}
		if a != ref || b != ref {
			r.Violate("C15/nondeterministic-outcome", "deb.Load/reload-after-double-close", "the same bytes: first load lists %s; after a package was closed twice, two concurrent loads list %s and %s", clip(ref, 200), clip(a, 200), clip(b, 200))
		}
	}
	// the caller keeps what it needs from a package opened with LoadFile - the
	// payload reader and the close function - and lets go of the *Deb itself; a
	// garbage collection (finalizers included) runs before the payload is read.
	// The listing is the one a caller gets who holds on to the *Deb.
	if target == "deb" && t.Bool(1, 6, "c15.gc") {
		fsys := simos.New(r)
		fsys.PutQuiet("/pkgs/x.deb", img)
		simos.Install(fsys)
		var ref, held string
		listTar := func(tr *tar.Reader) string {
			files, ferr := readDataTar(tr)
			names := []string{}
			for _, f := range files {
				names = append(names, fmt.Sprintf("%s/%d", f.Name, len(f.Body)))
			}
			return fmt.Sprintf("%v err=%v", names, ferr)
		}
		tk := r.Solo("holds-the-deb", func() {
			d, closeFn, err := deb.LoadFile("/pkgs/x.deb")
			if err != nil {
				ref = "load error: " + err.Error()
				return
			}
			ref = listTar(d.Data)
			if t.Bool(1, 2, "c15.gc.closevia") {
				d.Close()
			} else {
				closeFn()
			}
		})
		var data *tar.Reader
		var closeFn deb.Closer
		tk2 := r.Solo("drops-the-deb", func() {
			d, c, err := deb.LoadFile("/pkgs/x.deb")
			if err != nil {
				held = "load error: " + err.Error()
				return
			}
			data, closeFn = d.Data, c
		})
		for _, x := range []*rt.Task{tk, tk2} {
			if x.Panic != nil {
				r.Violate("C15/panic", "LoadFile", "opening, listing and closing an intact package through LoadFile panicked: %v\n%s", x.Panic, trimStack(x.PanicStack))
			}
		}
		if tk.Panic == nil && tk2.Panic == nil && data != nil {
			collectGarbage()
			tk3 := r.Solo("reads-after-gc", func() {
				held = listTar(data)
				closeFn()
			})
			if tk3.Panic != nil {
				r.Violate("C15/panic", "LoadFile/after-gc", "panic: %v", tk3.Panic)
			} else if held != ref {
				r.Violate("C15/nondeterministic-outcome", "LoadFile/deb-dropped-before-payload-read", "the same file: a caller that keeps the *Deb lists %s; a caller that keeps only Data and the close function, with a garbage collection before it reads, lists %s", clip(ref, 200), clip(held, 200))
			}
			r.Probe("payload-read-after-the-deb-was-dropped-and-garbage-collected")
		}
		simos.Install(nil)
	}
	// the same damaged file opened by name again and again in a process whose
	// descriptor table is small: every LoadFile has the same outcome (a load that
	// fails must not keep the file open - the table would fill up and the same
	// bytes would end in "too many open files" instead)
	if target == "deb" && t.Bool(1, 6, "c15.fdtable") {
		fsys := simos.New(r)
		fsys.PutQuiet("/pkgs/y.deb", bad)
		fsys.MaxOpen = 2 + t.Draw(3, "c15.fdtable.size")
		simos.Install(fsys)
		outs := []string{}
		tk := r.Solo("loads-by-name", func() {
			for i := 0; i < 3*fsys.MaxOpen; i++ {
				d, closeFn, err := deb.LoadFile("/pkgs/y.deb")
				if err != nil {
					// (which of several damaged columns an error names may depend on the
					// member order; whether the descriptor table was full may not)
					if errors.Is(err, syscall.EMFILE) {
						outs = append(outs, "load error: "+err.Error())
					} else {
						outs = append(outs, "load error (not a resource error)")
					}
					continue
				}
				outs = append(outs, fmt.Sprintf("loaded %s %s", d.Control.Package, d.Control.Version))
				closeFn()
			}
		})
		simos.Install(nil)
		if tk.Panic != nil {
			r.Violate("C15/panic", "LoadFile/repeated", "[%s] panic: %v\n%s", what, tk.Panic, trimStack(tk.PanicStack))
			return
		}
		if tk.Budget {
			r.Violate("C15/no-termination", "LoadFile/repeated", "[%s] repeated LoadFile did not finish within the step budget", what)
			return
		}
		for i, o := range outs {
			if o != outs[0] {
				r.Violate("C15/nondeterministic-outcome", "LoadFile/repeated-with-small-descriptor-table", "[%s] the same file, descriptor table of %d: LoadFile #1 gives %s, LoadFile #%d gives %s", what, fsys.MaxOpen, clip(outs[0], 200), i+1, clip(o, 200))
				break
			}
		}
		r.Probe("loadfile-repeated-with-small-descriptor-table")
	}
	// the .deb loader, several times under different member orders
	var first debOutcome
	for i := 0; i < 3; i++ {
		o, task := loadOutcomeOf(r, bad, what)
		if task.Panic != nil {
			r.Violate("C15/panic", "deb.Load", "[%s] panic: %v\n%s", what, task.Panic, trimStack(task.PanicStack))
			return
		}
		if task.Budget {
			r.Violate("C15/no-termination", "deb.Load", "[%s] Load did not finish within the step budget", what)
			return
		}
		if i == 0 {
			first = o
			if o.ok {
				r.Probe("damaged-package-still-loads")
			}
		} else if o != first {
			r.Violate("C15/nondeterministic-outcome", "deb.Load", "[%s] loading the same bytes under another member order: first %+v, then %+v", what, first, o)
			break
		}
	}
}

func clipStrs(s []string) []string {
	if len(s) > 6 {
		return append(append([]string{}, s[:6]...), "…")
	}
	return s
}

func init() {
	register(&Prop{
		ID: "C15", Level: "exploration", Variant: "I", Design: "DESIGN.md §5 C15",
		Rule:      "Each run stores a valid ar archive (C13 generator) or .deb (stored/gzip members) on the simulated disk and damages the stored bytes with one fault: a header column (timestamp, uid, gid, size) overwritten with a negative, -60, -61, huge, blank, signed or non-numeric value; one or both header magic bytes wrong; truncation inside the global magic, a header, the data or on the pad byte; a member duplicated, all members reordered, or an extra member under a colliding control.*/data.*/debian-binary name; 1..4 byte flips biased into headers; or raw bytes after a valid global magic. The ar iterator runs twice and deb.Load three times, each under a tape-chosen disk profile and member order; steps are counted at disk reads and instrumented loop heads. A sixth of the .deb runs also open the damaged file by name with LoadFile 3 x N times under a simulated descriptor table of N = 2..4 entries (EMFILE beyond it, only Close frees an entry): every outcome must fall in the same class.",
		Run:       runC15,
		QuickRuns: 300000, QuickSecs: 40, ThoroughRuns: 5_000_000, ThoroughSecs: 900,
		Components: map[string]interface{}{
			"real_instrumented": []string{"pault.ag/go/debian/deb (LoadAr, Ar.Next, parseArEntry, Load, loadDeb, loadDeb2Control, loadDeb2Data)"},
			"real":              []string{"archive/tar, compress/gzip (stdlib)"},
			"stub":              []string{"simdisk.Disk with stored-state corruption"},
		},
		Assumptions: []string{"inputs are structured corruptions of valid archives and raw bytes drawn from a header-like alphabet; coverage-guided fuzzing (named in the property's quantifier) is a different technique and is not used", "only stored and gzip members are damaged for deb.Load, as the statement excludes the third-party decoders on hostile streams"},
	})
	propProbes["C15"] = []string{"loadfile-repeated-with-small-descriptor-table", "payload-read-after-the-deb-was-dropped-and-garbage-collected", "input-is-a-window-into-a-larger-device", "package-reloaded-after-double-close", "two-archives-iterated-concurrently", "reader-fails-beyond-the-end-with-a-non-EOF-error", "reader-with-sequential-state", "iteration-ended-in-error", "iteration-ended-in-eof", "damaged-package-still-loads"}
}
