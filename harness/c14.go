package main

// C14  .deb loading exposes the package's control data and payload faithfully.
//
// Simulated: package builder -> simulated disk (or a file on the simulated
// file system, through deb.LoadFile) -> deb.Load, in the instrumented variant
// with the member-order seam active: which control.*/data.* member the
// loader's map scans meet first is a recorded, replayable choice.

import (
	"archive/tar"
	"bytes"
	"fmt"
	"io"
	"sort"
	"strings"

	"pault.ag/go/debian/deb"
	"verifsim/rt"
	"verifsim/simdisk"
	"verifsim/simos"
)

// readDataTar lists the data tar stream; returns what could be read and the error.
func readDataTar(tr *tar.Reader) ([]tarFile, error) {
	var out []tarFile
	for i := 0; i < 100000; i++ {
		h, err := tr.Next()
		if err == io.EOF {
			return out, nil
		}
		if err != nil {
			return out, err
		}
		b, err := io.ReadAll(tr)
		out = append(out, tarFile{Name: h.Name, Body: b, Dir: h.Typeflag == tar.TypeDir})
		if err != nil {
			return out, err
		}
	}
	return out, fmt.Errorf("tar did not end")
}

func dataDiff(got, want []tarFile, prefixOK bool) string {
	if len(got) > len(want) || (!prefixOK && len(got) != len(want)) {
		return fmt.Sprintf("%d entries, want %d", len(got), len(want))
	}
	for i, g := range got {
		w := want[i]
		if g.Name != w.Name || g.Dir != w.Dir {
			return fmt.Sprintf("entry %d is %q (dir=%v), want %q (dir=%v)", i, g.Name, g.Dir, w.Name, w.Dir)
		}
		if prefixOK && i == len(got)-1 {
			// the read of this entry ended in an error: what a decompressor handed
			// out before it reported the error is not claimed to be meaningful
			// (compress/bzip2 emits bytes decoded from zero bits before it notices
			// the I/O error); only completely read entries are compared
			continue
		}
		if !bytes.Equal(g.Body, w.Body) {
			return fmt.Sprintf("entry %d (%s): %d bytes differ from the packaged %d", i, g.Name, len(g.Body), len(w.Body))
		}
	}
	return ""
}

// c14TypedDevice: fault-free, non-concurrent loads may hand the image in as a
// standard concrete ReaderAt type instead of the simulated disk.
var c14TypedDevice bool

// c14LZ: the package of this run has an lzma member, whose decoder reads from a
// goroutine of its own.
var c14LZ bool

type loadOutcome struct {
	ownFile string // "" or what went wrong with the caller's own file handle
	d       *deb.Deb
	err     error
	files   []tarFile
	ferr    error
	cerr    error
	task    *rt.Task
}

// loadVia loads the image through deb.Load on a simulated disk, or through
// deb.LoadFile on the simulated file system, and reads the payload to the end.
func loadBody(r *rt.Run, via string, img []byte, disk *simdisk.Disk, readData bool, o *loadOutcome) func() {
	return func() {
		var closer func() error
		switch via {
		case "Load":
			var dev io.ReaderAt = disk
			if c14TypedDevice {
				dev = typedReaderAt(r, img, disk)
			}
			o.d, o.err = deb.Load(dev, "/pkgs/x.deb")
		case "LoadOwnFile":
			// the caller opens the file itself and hands the handle to Load: the
			// handle stays the caller's - usable for another Load after the first
			// package was closed, and closed by the caller alone
			fs := simos.New(r)
			fs.NoYield = c14LZ
			fs.PutQuiet("/pkgs/x.deb", img)
			simos.Install(fs)
			defer simos.Install(nil)
			f, err := simos.Open("/pkgs/x.deb")
			if err != nil {
				o.err = err
				return
			}
			defer func() {
				if o.err != nil || o.d == nil {
					f.Close()
					return
				}
				d2, err2 := deb.Load(f, "/pkgs/x.deb")
				switch {
				case err2 != nil:
					o.ownFile = fmt.Sprintf("after the first package was closed, a second Load from the caller's still-open file failed: %v", err2)
				case d2.Control.Package != o.d.Control.Package:
					o.ownFile = "the second Load from the same handle gave another package name"
				}
				if d2 != nil {
					d2.Close()
				}
				if cerr := f.Close(); cerr != nil && o.ownFile == "" {
					o.ownFile = fmt.Sprintf("the caller's own Close of its file failed: %v (someone else closed it)", cerr)
				}
			}()
			o.d, o.err = deb.Load(f, "/pkgs/x.deb")
		case "LoadFile":
			fs := simos.New(r)
			fs.NoYield = c14LZ
			fs.PutQuiet("/pkgs/x.deb", img)
			simos.Install(fs)
			defer simos.Install(nil)
			var c deb.Closer
			o.d, c, o.err = deb.LoadFile("/pkgs/x.deb")
			if c != nil {
				closer = c
			}
		}
		if o.err != nil || o.d == nil {
			return
		}
		if readData && o.d.Data != nil {
			o.files, o.ferr = readDataTar(o.d.Data)
		}
		if closer != nil {
			o.cerr = closer()
		} else {
			o.cerr = o.d.Close()
		}
	}
}

func loadVia(r *rt.Run, via string, img []byte, disk *simdisk.Disk, readData bool) loadOutcome {
	var o loadOutcome
	o.task = r.Solo("loader", loadBody(r, via, img, disk, readData, &o))
	return o
}

// fieldOf extracts the field name from a "Field: detail" difference.
func fieldOf(diff string) string {
	for i := 0; i < len(diff); i++ {
		if diff[i] == ':' {
			return diff[:i]
		}
	}
	return "?"
}

var c14Rejects = []string{"binver-1.0", "binver-3.0", "binver-0.939000", "binver-empty", "no-debian-binary", "no-control", "no-data", "binver-20.0", "binver-21.3", "binver-200.0", "binver-12.0"}

func runC14(r *rt.Run, tier string) {
	t := r.T
	r.EnableMapOrder(true)
	pair := t.Draw(36, "deb.pair")
	p := genDeb(t, r, pair, allCodecs)
	r.Stats["codec."+p.CtlCodec+"/"+p.DataCodec]++
	mode := t.Weighted([]int{6, 2, 2}, "config.mode") // 0 fault-free, 1 reject class, 2 EIO
	via := "Load"
	if mode != 2 && t.Bool(1, 6, "c14.via") {
		via = "LoadFile"
		r.Probe("via-LoadFile")
	} else if mode == 0 && t.Bool(1, 8, "c14.via-ownfile") {
		via = "LoadOwnFile"
		r.Probe("via-the-callers-own-file-handle")
	}
	lz := p.CtlCodec == "lzma" || p.DataCodec == "lzma"
	c14LZ = lz
	img := p.Image
	// the process-wide tuning knob of the xz decoder is a per-run choice: unset,
	// the default, the corpus' own dictionary size (8 MiB), more, or far too
	// little (then refusing an xz member is legitimate, wrong data is not)
	xzTiny := false
	if k := t.Weighted([]int{4, 2, 2, 2, 1, 2, 2}, "knob.xzdict"); k > 0 {
		v := []uint32{0, 0, 1 << 23, 1 << 26, 1<<32 - 1, 1 << 16, 0}[k]
		if k == 6 {
			// lowered earlier in the process, then reset: zero selects the default again
			deb.SetXZMaxDict(1 << 16)
			r.Probe("xz-dictionary-limit-lowered-then-reset")
		}
		deb.SetXZMaxDict(v)
		defer deb.SetXZMaxDict(0)
		r.Stats[fmt.Sprintf("knob.xzdict=%d", v)]++
		xzTiny = k == 5 && (p.CtlCodec == "xz" || p.DataCodec == "xz")
		if xzTiny {
			r.Probe("xz-dictionary-limit-below-need")
		}
	}
	reject := ""
	if mode == 1 {
		reject = c14Rejects[t.Draw(len(c14Rejects), "c14.reject")]
		ms := append([]*arMember{}, p.Members...)
		drop := func(m *arMember) {
			out := ms[:0]
			for _, x := range ms {
				if x != m {
					out = append(out, x)
				}
			}
			ms = out
		}
		switch reject {
		case "binver-1.0":
			p.BinMember.Data = []byte("1.0\n")
		case "binver-3.0":
			p.BinMember.Data = []byte("3.0\n")
		case "binver-0.939000":
			p.BinMember.Data = []byte("0.939000\n")
		case "binver-20.0", "binver-21.3", "binver-200.0", "binver-12.0":
			p.BinMember.Data = []byte(strings.TrimPrefix(reject, "binver-") + "\n")
		case "binver-empty":
			p.BinMember.Data = []byte{}
		case "no-debian-binary":
			drop(p.BinMember)
		case "no-control":
			drop(p.CtlMember)
		case "no-data":
			drop(p.DataMember)
		}
		img = renderAr(ms)
		r.Fault("package." + reject)
	}
	r.Stats[[]string{"config.faultfree", "config.reject", "config.eio"}[mode]]++
	r.Event("workload", via, fmt.Sprintf("ctl=%q data=%q bytes=%d mode=%d %s", p.CtlCodec, p.DataCodec, len(img), mode, reject))

	newDisk := func() *simdisk.Disk {
		d := simdisk.New(r, "deb", img)
		d.Quiet = lz
		d.DrawProfile()
		return d
	}

	key := via + "/" + p.CtlCodec + "+" + p.DataCodec
	nloads := 1 + t.Draw(3, "c14.loads")
	// fault-free loads may run as concurrent tasks, interleaved at every disk
	// read: several packages open at the same time (shared decoder state shows)
	concurrent := mode == 0 && !lz && via == "Load" && nloads > 1 && t.Bool(1, 2, "c14.concurrent")
	var pre []loadOutcome
	if concurrent && t.Bool(1, 2, "c14.doubleclose") {
		// an earlier package of this process was closed twice - through the close
		// function LoadFile returns AND through Deb.Close, which its documentation
		// allows; that must not leave anything behind for the packages opened later
		var dcErr error
		task := r.Solo("double-close", func() {
			fs := simos.New(r)
			fs.PutQuiet("/pkgs/earlier.deb", img)
			simos.Install(fs)
			defer simos.Install(nil)
			d, closeFn, err := deb.LoadFile("/pkgs/earlier.deb")
			if err != nil {
				dcErr = err
				return
			}
			closeFn()
			d.Close()
		})
		if taskTrouble(r, "C14", "double-close", task) {
			return
		}
		_ = dcErr
		r.Probe("earlier-package-closed-twice")
	}
	if concurrent {
		r.Probe("loads-interleaved")
		r.Sticky = t.Draw(3, "sched.sticky")
		pre = make([]loadOutcome, nloads)
		for li := 0; li < nloads; li++ {
			pre[li].task = r.Go(fmt.Sprintf("L%d", li), loadBody(r, via, img, newDisk(), true, &pre[li]))
		}
		r.Sched()
	}
	c14TypedDevice = mode == 0 && !concurrent && !lz
	defer func() { c14TypedDevice = false }()
	var firstErr error
	for li := 0; li < nloads; li++ {
		disk := newDisk()
		badLo := -1
		if mode == 2 && !lz {
			// EIO on a byte range inside one of the three members
			m := []*arMember{p.BinMember, p.CtlMember, p.DataMember}[t.Weighted([]int{1, 3, 4}, "fault.member")]
			if len(p.Members) > 3 && t.Bool(1, 3, "fault.extramember") {
				// an extra member (which Load does not need for anything but the index)
				for _, x := range p.Members {
					if x != p.BinMember && x != p.CtlMember && x != p.DataMember {
						m = x
					}
				}
				r.Probe("fault-on-extra-member")
			}
			if len(m.Data) > 0 && t.Bool(3, 4, "fault.indata") {
				badLo = m.DataOff + t.Draw(len(m.Data), "fault.off")
			} else {
				// in the member's header; half of the time exactly at its first byte
				// (the header read then returns no byte at all)
				badLo = m.HdrOff
				if !t.Bool(1, 2, "fault.hdrstart") {
					badLo += t.Draw(60, "fault.off")
				}
			}
			disk.FailRange(badLo, badLo+1+t.Draw(32, "fault.len"))
			disk.RangeOnce = t.Bool(1, 3, "fault.rangeonce")
		}
		var o loadOutcome
		if concurrent {
			o = pre[li]
		} else {
			o = loadVia(r, via, img, disk, true)
		}
		if taskTrouble(r, "C14", key, o.task) {
			return
		}
		if li == 0 {
			firstErr = o.err
		} else if (firstErr == nil) != (o.err == nil) && mode != 2 {
			r.Violate("C14/nondeterministic-outcome", key, "the same bytes loaded twice: first err=%v, load %d err=%v", firstErr, li+1, o.err)
		}
		switch mode {
		case 1:
			if o.err == nil {
				r.Violate("C14/accepted-invalid-package", reject, "package with %s was loaded without error", reject)
			}
			continue
		case 2:
			if o.err != nil {
				continue // failing is always acceptable under an I/O error
			}
			if d := controlDiff(&o.d.Control, &p.Ctl.Model); d != "" {
				r.Violate("C14/control-mismatch", fieldOf(d)+"/eio", "[%s] load succeeded over a failing disk range but %s", key, d)
			}
			// the member index is built completely at load time: a successful load lists every member
			for _, x := range p.Members {
				if o.d.ArContent[x.Name] == nil {
					r.Violate("C14/member-index", "eio/member-missing", "[%s] load succeeded over a failing disk range but the index lacks member %q (I/O error taken for the end of the archive?)", key, x.Name)
					break
				}
			}
			if d := dataDiff(o.files, p.Data.Files, o.ferr != nil); d != "" {
				r.Violate("C14/payload-mismatch", key+"/eio", "%s (tar error: %v)", d, o.ferr)
			}
			if disk.Fired && o.ferr == nil && o.cerr == nil && len(o.files) == len(p.Data.Files) {
				// the error hit something that never mattered (e.g. padding or an
				// already buffered range); nothing to demand
				r.Probe("eio-did-not-matter")
			}
			continue
		}
		// fault-free
		if xzTiny && (o.err != nil || o.ferr != nil) {
			// the decoder may refuse; what it did hand out completely must be right
			r.Probe("xz-member-refused-under-limit")
			if o.err == nil {
				if diff := controlDiff(&o.d.Control, &p.Ctl.Model); diff != "" {
					r.Violate("C14/control-mismatch", fieldOf(diff)+"/xz-limit", "[%s] %s", key, diff)
				}
				if d := dataDiff(o.files, p.Data.Files, true); d != "" {
					r.Violate("C14/payload-mismatch", key+"/xz-limit", "%s (tar error: %v)", d, o.ferr)
				}
			}
			continue
		}
		if o.err != nil {
			r.Violate("C14/load-error", key, "well-formed package rejected: %v", o.err)
			return
		}
		d := o.d
		if diff := controlDiff(&d.Control, &p.Ctl.Model); diff != "" {
			r.Violate("C14/control-mismatch", fieldOf(diff), "[%s] %s\ncontrol file:\n%s", key, diff, clip(p.Ctl.Model.render(), 600))
		}
		if want := "tar" + codecExt(p.CtlCodec); d.ControlExt != want {
			r.Violate("C14/extension-mismatch", "control", "ControlExt=%q want %q", d.ControlExt, want)
		}
		if want := "tar" + codecExt(p.DataCodec); d.DataExt != want {
			r.Violate("C14/extension-mismatch", "data", "DataExt=%q want %q", d.DataExt, want)
		}
		names := []string{}
		for n, e := range d.ArContent {
			names = append(names, n)
			if e == nil || e.Name != n {
				r.Violate("C14/member-index", key, "ArContent[%q] is %+v", n, e)
			}
		}
		sort.Strings(names)
		wantNames := []string{}
		for _, m := range p.Members {
			wantNames = append(wantNames, m.Name)
			if e := d.ArContent[m.Name]; e != nil && e.Size != int64(len(m.Data)) {
				r.Violate("C14/member-index", key+"/size", "ArContent[%q].Size=%d want %d", m.Name, e.Size, len(m.Data))
			}
		}
		sort.Strings(wantNames)
		if fmt.Sprint(names) != fmt.Sprint(wantNames) {
			r.Violate("C14/member-index", key+"/names", "ArContent has %v want %v", names, wantNames)
		}
		if o.ferr != nil {
			r.Violate("C14/payload-error", key, "reading the data tar failed: %v", o.ferr)
		} else if diff := dataDiff(o.files, p.Data.Files, false); diff != "" {
			r.Violate("C14/payload-mismatch", key, "%s", diff)
		}
		if o.cerr != nil {
			r.Violate("C14/close-error", key, "Close: %v", o.cerr)
		}
		if o.ownFile != "" {
			r.Violate("C14/callers-file-handle", key, "%s", o.ownFile)
		}
		// accessors on what was loaded: the source-package name, and the member
		// index entries seen as tar files
		wantSrc := p.Ctl.Model.Source
		if wantSrc == "" {
			wantSrc = p.Ctl.Model.Package
		}
		if got := d.Control.SourceName(); got != wantSrc {
			r.Violate("C14/control-mismatch", "SourceName()", "[%s] SourceName()=%q want %q (Source %q, Package %q)", key, got, wantSrc, p.Ctl.Model.Source, p.Ctl.Model.Package)
		}
		if li == 0 && !lz && via == "Load" && !concurrent {
			for _, m := range p.Members {
				e := d.ArContent[m.Name]
				if e == nil {
					continue
				}
				wantTar := m == p.CtlMember || m == p.DataMember
				if e.IsTarfile() != wantTar {
					r.Violate("C14/member-index", "IsTarfile/"+map[bool]string{true: "tar-member", false: "other-member"}[wantTar], "[%s] ArContent[%q].IsTarfile()=%v", key, m.Name, e.IsTarfile())
				}
				if m != p.CtlMember {
					continue
				}
				// the control member opened again through the index entry lists the control tar
				var names []string
				var terr error
				task := r.Solo("Tarfile", func() {
					e.Data.Seek(0, io.SeekStart)
					tr, closer, err := e.Tarfile()
					if err != nil {
						terr = err
						return
					}
					fs, err := readDataTar(tr)
					terr = err
					for _, f := range fs {
						names = append(names, f.Name)
					}
					if closer != nil {
						closer.Close()
					}
				})
				if taskTrouble(r, "C14", key+"/Tarfile", task) {
					return
				}
				var want []string
				for _, f := range p.Ctl.Files {
					want = append(want, f.Name)
				}
				if terr != nil || fmt.Sprint(names) != fmt.Sprint(want) {
					r.Violate("C14/member-index", "Tarfile/control", "[%s] ArContent[%q].Tarfile() lists %v (err=%v), the control tar holds %v", key, m.Name, names, terr, want)
				}
				r.Probe("index-entry-opened-as-tarfile")
			}
		}
		if d.Path != "/pkgs/x.deb" {
			r.Violate("C14/path", key, "Path=%q", d.Path)
		}
	}
	if nloads > 1 {
		r.Probe("loaded-repeatedly")
	}
}

func init() {
	register(&Prop{
		ID: "C14", Level: "exploration", Variant: "I", Design: "DESIGN.md §5 C14",
		Rule:      "Each run draws a package model (control paragraph with dependencies and multi-line description, control-tar file order and control name './control' or 'control', 0..6 data files up to 64 KiB, 0..2 extra '_' members in any position after debian-binary) and one of the 36 (control codec x data codec) pairs over {none, gz, xz, bz2, lzma, zst}; none/gz/zst/lzma payloads are generated per run, xz/bz2 payloads come from a committed corpus of 10 pre-compressed tars each. The image is loaded 1..4 times through deb.Load on a simulated disk (strict or eof-eager) or deb.LoadFile on the simulated file system, each time under a tape-chosen member order of the loader's map scans. The xz decoder's process-wide dictionary limit (deb.SetXZMaxDict) is a per-run knob: untouched, default, exactly the corpus' 8 MiB, larger, or 64 KiB (then an xz member may be refused but never misread). Configurations: fault-free (exact equality with the model), reject classes (format version 1.0/3.0/0.939000/empty; missing debian-binary/control/data), and EIO on a byte range.",
		Run:       runC14,
		QuickRuns: 40000, QuickSecs: 40, ThoroughRuns: 2_000_000, ThoroughSecs: 900,
		Components: map[string]interface{}{
			"real_instrumented": []string{"pault.ag/go/debian/deb (Load, LoadFile, loadDeb, loadDeb2Control, loadDeb2Data, Tarfile, DecompressorFor)", "pault.ag/go/debian/control (Unmarshal)", "pault.ag/go/debian/dependency, version"},
			"real":              []string{"archive/tar, compress/gzip, compress/bzip2 (stdlib)", "github.com/xi2/xz, github.com/kjk/lzma, github.com/klauspost/compress/zstd decoders"},
			"stub":              []string{"simdisk.Disk", "verifsim/simos (LoadFile route)"},
			"external_tools":    "none at check time; the xz/bz2 corpus was produced once with xz and bzip2 by `vh mkfixtures`; dpkg-deb is not used",
		},
		Assumptions: []string{"kjk/lzma decodes in its own goroutine: for packages with an lzma member the disk runs in quiet mode (no trace events, no EIO) so that the trace stays deterministic", "tar and gzip writers of the Go stdlib and the zstd/lzma encoders of the third-party modules are trusted to produce valid payloads"},
	})
	propProbes["C14"] = []string{"via-the-callers-own-file-handle", "index-entry-opened-as-tarfile", "xz-dictionary-limit-lowered-then-reset", "xz-member-refused-under-limit", "xz-dictionary-limit-below-need", "earlier-package-closed-twice", "gzip-member-with-several-streams", "fault-on-extra-member", "loads-interleaved", "via-LoadFile", "loaded-repeatedly", "extra-underscore-member"}
}
