#!/usr/bin/env python3
"""Regenerates MANIFEST.json from the table below (kept as code so that the
manifest is always schema-valid and in step with the checks that exist)."""
import json, sys, os
HERE = os.path.dirname(os.path.abspath(__file__))

NA = {
 "C01": "pure function of two version strings: no stream, file, map iteration, shared state, schedule or fault for a simulator to own; deciding it is input enumeration against a dpkg oracle (another technique)",
 "C02": "order laws over the pure version.Compare; sort.Sort is deterministic for a given slice; nothing for a scheduler or fault injector to vary",
 "C03": "version.Parse/String/MarshalText/UnmarshalControl are pure string<->struct maps with no I/O seam or nondeterminism",
 "C04": "dependency.Parse is a pure character state machine over an in-memory string; the quantifier is the input grammar only",
 "C05": "pure composition Parse∘String∘Parse; no seam, schedule or fault",
 "C06": "pure predicates over small structs; decided by enumerating a finite abstraction, not by schedules or faults",
}

# id -> (level, technique, text, note)
CHECKS = {}
def chk(id, level, technique, text, note, design):
    CHECKS[id] = dict(level=level, technique=technique, text=text, note=note, design=design)

chk("C17", "fault_enumeration",
    "deterministic simulation: seeded changelog workloads over a simulated stream with EOF-at-every-byte (truncation), EIO and malformed-entry faults, checked against an entry-list reference model; seeded search with tape minimisation and exact replay",
    "Every run is one seeded workload + delivery schedule + at most one fault. Quick samples fault positions biased into headers/trailers/dates and sweeps 16 workloads completely; thorough executes every truncation point, every EIO point and every malformation of each sampled changelog. Sampling over workloads, exhaustive over fault positions per workload: evidence, not proof.",
    "Trusted: Go stdlib (bufio, time), the independent renderer/model in harness/c17.go, the simulated reader. Real code (instrumented scratch copy, os calls routed to the simulated file system): changelog.Parse/ParseOne/ParseFile/ParseFileOne, version.Parse.",
    "DESIGN.md §5 C17")

chk("C07", "exploration",
    "deterministic simulation: seeded deb822 documents fed to four consumers over simulated streams (delivery schedules, EOF placement, truncation, EIO, arbitrary bytes), checked against a generator model and an independent reference reader; seeded search with tape minimisation and exact replay",
    "Fault-free runs demand exact equality of paragraphs/fields/logical lines with the model for all four consumers under varied delivery schedules; fault runs check prefix equality, error propagation and the any-input invariant. Sampling: evidence, not proof.",
    "Trusted: Go stdlib, the generator/reference reader in harness/deb822.go (cross-checked against each other every run), the simulated reader. Real code: control.ParagraphReader, Decoder, Unmarshal.",
    "DESIGN.md §5 C07")

chk("C08", "exploration",
    "deterministic simulation: seeded paragraph/document workloads driven through a simulated document store (writer -> faulty sink -> stored bytes -> reader) over several write/read cycles, checked against a paragraph-list model and a blank-line scanner; seeded search with tape minimisation and exact replay",
    "Fault-free runs demand value equality (modulo one trailing newline / the leading marker), no blank or whitespace-only line inside a written paragraph, one separator line between encoder paragraphs and a byte fixpoint from the second written form on; fault runs demand that a failing sink is reported and that the accepted bytes are a prefix of the fault-free output. Sampling: evidence, not proof.",
    "Trusted: Go stdlib, the value generator and scanner in harness/c08.go, simulated reader/writer. Real code: Paragraph.WriteTo, Encoder, Marshal, ParagraphReader.",
    "DESIGN.md §5 C08")

chk("C12", "exploration",
    "deterministic simulation: seeded byte streams through the hashing readers/writers over simulated source and sink (chunk schedules, (n,EOF), zero reads, short write/ENOSPC/EIO), and checksum entries arriving through the control reader, checked step by step against stdlib digests; seeded search with tape minimisation and exact replay",
    "Per-step prefix consistency (size and digest of exactly the bytes passed so far), pass-through equality, error propagation under sink/source faults, and verifier verdict == (digest under the entry's own algorithm equals recorded hash) for seven recorded-hash kinds through typed fields, BestChecksums and FileHashFromHasher. Sampling: evidence, not proof.",
    "Trusted: crypto/* of the Go stdlib as reference digests; simulated reader/writer. Real code: hashio, control.FileHash.Verifier, BestChecksums, Unmarshal.",
    "DESIGN.md §5 C12")

chk("C13", "exploration",
    "deterministic simulation: seeded ar archives on a simulated disk (strict / eof-eager ReaderAt, EIO ranges) with an iterator task and per-member reader tasks interleaved by a seeded scheduler at every disk read, checked operation by operation against a member-list model; tape minimisation and exact replay",
    "Every Next result and every Read/Seek/ReadAt/re-read on every member reader is compared with the model while the iterator advances; both contract-legal end-of-file behaviours of io.ReaderAt are explored; under EIO an operation may fail or return a correct prefix, never wrong bytes. Sampling: evidence, not proof.",
    "Trusted: io.SectionReader, the archive renderer/model in harness/ar.go, the simulated disk. Real code: deb.LoadAr, Ar.Next, parseArEntry.",
    "DESIGN.md §5 C13")

chk("C20", "fault_enumeration",
    "deterministic simulation: uploads executed on an in-memory simulated file system substituted for package os in an instrumented scratch copy; uploader, queue-watcher and second-uploader tasks interleaved by a seeded scheduler at every file-system call; one fault (errno, short write, crash before/after) at a chosen call index, swept over every call index x fault kind per workload in the thorough tier; invariants checked after every call and over the recorded history; tape minimisation and exact replay",
    "For each sampled workload the fault dimension (call index x fault kind) is enumerated completely in the thorough tier (and for 48 workloads in quick); workloads, interleavings and listed-name shapes are sampled. Order and remove-order invariants are evaluated after every single file-system call, i.e. at every instant an inotify watcher could observe.",
    "Trusted: the simos model of POSIX semantics (differentially tested against the real os), vinstr's import swap (any os symbol the shim lacks fails the build: exit 2). Real code (instrumented copy of the working tree): control.DSC/Changes Copy/Move/Remove, AbsFiles, ParseDscFile/ParseChangesFile, internal.Copy.",
    "DESIGN.md §5 C20")

chk("C14", "exploration",
    "deterministic simulation: seeded .deb packages (36 codec pairs, member orders, extra members) on a simulated disk / simulated file system, loaded repeatedly under tape-chosen map-iteration orders of the instrumented loader, with reject classes and EIO ranges, checked against a package model; tape minimisation and exact replay",
    "Fault-free loads demand equality of every typed control field, extensions, member index and the complete data tar listing with the model for all 36 codec pairs; reject classes must fail; under EIO a load may fail or must be model-equal with the error surfacing through Data. The loader's map-order nondeterminism is owned by the simulator (recorded choices). Sampling: evidence, not proof.",
    "Trusted: archive/tar, gzip (stdlib) and the zstd/lzma encoders to build payloads; xz/bz2 payloads from a committed corpus; vinstr's map-range rewrite. Real code (instrumented copy): deb.Load/LoadFile and below; third-party decoders run unmodified.",
    "DESIGN.md §5 C14")

chk("C15", "exploration",
    "deterministic simulation: valid archives/packages stored on a simulated disk and damaged by seeded stored-state faults (header columns, magic bytes, truncation, duplicated/reordered/colliding members, byte flips, raw bytes), iterated and loaded repeatedly under tape-chosen disk profiles and map-iteration orders with deterministic step counting; tape minimisation and exact replay",
    "Side part (real execution, -race, beyond the statement): six packages loaded by parallel goroutines from a cold process. Checks: no panic; Next is called at most len/60+1 times before EOF or error and the logical step budget is never exhausted; every returned member comes from a header carrying the two magic bytes, has Size>=0 and its reader delivers exactly Size bytes; iterating/loading the same bytes again under another member order gives the same outcome. Sampling of structured corruptions: evidence, not proof; no coverage-guided fuzzing.",
    "Trusted: io.SectionReader.Outer to recover header offsets, vinstr's step counters and map-range rewrite. Real code (instrumented copy): deb.LoadAr/Next/parseArEntry, deb.Load.",
    "DESIGN.md §5 C15")

chk("C16", "fault_enumeration",
    "deterministic simulation: signed .deb packages on a simulated disk passed through a corrupting store (single-byte substitution in each signed member and the signature, decoy control.*/data.* members, wrong role, foreign or empty keyring), loaded and verified repeatedly under tape-chosen map-iteration orders of the instrumented loader/verifier; thorough tier sweeps every fault position per sampled package; tape minimisation and exact replay",
    "Soundness is checked on every run whatever the fault: if Load and CheckDebsig both succeed then the signer is the signing fixture key and is in the keyring, and the exposed control fields and payload equal the signed content (payload read before or after verification). Must-fail classes are checked under every sampled member order. The fault dimension is enumerated per sampled package in the thorough tier; packages and orders are sampled.",
    "Trusted: x/crypto/openpgp (makes and verifies the signatures), fixture keys, vinstr's map-range rewrite. Real code (instrumented copy): deb.Load, Deb.CheckDebsig.",
    "DESIGN.md §5 C16")

chk("C11", "fault_enumeration",
    "deterministic simulation: seeded documents clearsigned with fixture keys, passed through a corrupting channel (byte substitution/deletion/insertion/truncation at every position, spliced foreign paragraphs, appended block, replaced signature, keyring variants) and read through the library's verifying readers over a simulated stream; thorough tier sweeps every fault position per sampled document; tape minimisation and exact replay",
    "Soundness (a reported signer implies the returned paragraphs are exactly the signed text and the signer is the signing key in the keyring) and 'no text from outside the signed block reaches the caller' are checked on every run whatever the fault; must-fail is demanded only where the signed text or decoded signature provably changed. Fault positions enumerated per sampled document in the thorough tier; documents, keys and keyrings sampled.",
    "Trusted: x/crypto/openpgp + clearsign (sign and verify), fixture keys, the deb822 model. Real code: control.NewParagraphReader/NewDecoder/decodeClearsig/Signer.",
    "DESIGN.md §5 C11")

chk("C09", "exploration",
    "deterministic simulation: seeded values of probe struct types (every supported kind and tag) marshalled and unmarshalled through the simulated document store (sink/source chunk schedules and faults), with presence rules checked on the raw text, unknown-field pass-through under mutation, and a panic trap; tape minimisation and exact replay",
    "Field-by-field equality after Marshal->Unmarshal for all kinds; omission/required/skip/rename rules checked on the written text; missing required input must fail; unknown fields must be re-emitted unchanged and in order while known fields show the struct's current values; Marshal of pointer fields must not panic; sink/source faults must be reported. Sampling: evidence, not proof.",
    "Trusted: the value models in harness/c09.go, the dependency/arch models, simulated reader/writer. Real code: control.Marshal/Unmarshal/ConvertToParagraph/UnpackFromParagraph and the custom types' (Un)MarshalControl.",
    "DESIGN.md §5 C09")

chk("C10", "exploration",
    "deterministic simulation: seeded models of .dsc, .changes, debian/control, Packages and Sources documents rendered by an independent renderer and parsed through the typed entry points over a simulated stream with a tape-chosen caller bufio size (buffered hand-over in ParseControl), or through the *File entry points on the simulated file system, with EIO injection; every typed field and accessor compared with the model; tape minimisation and exact replay",
    "Field-by-field equality with the model for all five document kinds, including folded lists and dependency fields, file-hash tuples with their algorithm, and derived accessors; the caller's buffer size and the delivery schedule are explored because ParseControl decodes twice from one buffered stream. Sampling: evidence, not proof.",
    "Trusted: the document models and renderer in harness/docs.go, dependency/arch models, simulated reader and file system. Real code (instrumented copy): control.Parse* and everything below.",
    "DESIGN.md §5 C10")

chk("C19", "exploration",
    "deterministic simulation (claimed weakly): seeded build-dependency graphs rendered as .dsc files onto the simulated file system in a tape-chosen arrival order, read back through ParseDscFile and ordered repeatedly by the instrumented OrderDSCForBuild under tape-chosen map orders; outcome checked against an independent graph model (cycle <=> error, otherwise forward edges and a permutation); tape minimisation and exact replay",
    "OrderDSCForBuild is a pure function: simulation owns the arrival order, the file reads and Go's map-order nondeterminism, which is the only run-to-run variation the 'same on every run' clause can depend on. The topological validity clause is decided by generated inputs against a graph model; if that is judged outside the technique family this property belongs with C01-C06.",
    "Trusted: the graph model in harness/c19.go, the .dsc renderer, simos. Real code (instrumented copy): control.OrderDSCForBuild, ParseDscFile, dependency.GetPossibilities; pault.ag/go/topsort unmodified.",
    "DESIGN.md §5 C19")

chk("C18", "exploration",
    "deterministic simulation: 2..8 parser calls on mutated grammar-derived inputs run alone, then as tasks interleaved by a seeded scheduler at stream reads and at buggified loop heads/function entries of the instrumented parsers, then alone again; panics trapped, logical step budget for termination, value-and-error rule, result equality; plus a separate real-execution part under the Go race detector on the uninstrumented tree",
    "Totality (no panic, deterministic step budget), 'never a usable value together with an error', independence of the result from interleaving inside the parsers (catches package-level scratch state), and repeat determinism are checked in simulation with exact replay. Data races are looked for by really running the same task sets in parallel under -race (GOMAXPROCS=16): that part is observation, not simulation, and is reported as such. Inputs are sampled (no coverage guidance): evidence, not proof.",
    "Trusted: vinstr's Step insertion, JSON rendering for result comparison, the Go race detector. Real code: all parsers of version, dependency, control, changelog (instrumented copy for the simulation, unmodified tree for the race part).",
    "DESIGN.md §5 C18")

COMMON = ("; every choice (workload, delivery, schedule, faults, knobs, concrete argument types, garbage-collection points) comes from one seeded tape; "
          "a violation is minimised and replayed in fresh processes, as a single run or - when it needs state left behind by earlier calls - as a recorded sequence of runs in one process")

def main():
    props = [json.loads(l) for l in open(os.path.join(HERE, "properties.jsonl"))]
    ids = [p["id"] for p in props]
    checks = []
    for id in ids:
        if id not in CHECKS: continue
        c = CHECKS[id]
        checks.append({
            "property_id": id,
            "quick_cmd": f"./check {id} quick",
            "thorough_cmd": f"./check {id} thorough",
            "evidence_file": f"evidence/{id}.json",
            "replay_cmd_template": "./check replay {path}",
            "engine": "vsim",
            "level_claimed": {"category": c["level"], "text": c["text"], "design_ref": c["design"]},
            "level_note": c["note"],
            "technique": c["technique"] + COMMON,
        })
    na = []
    for id in ids:
        if id in CHECKS: continue
        reason = NA.get(id, "check not built yet in this round; see DESIGN.md §5 for the planned simulation")
        na.append({"property_id": id, "reason": reason})
    m = {
        "version": 1,
        "setup_cmd": "./check setup",
        "hooks": {
            "guard": "verif (unused: no hook is committed to /repo)",
            "enable": "none needed: each check copies /repo's working tree to a scratch directory and instruments the copy at run time (vinstr: os / io/ioutil / path/filepath imports routed to the simulated file system, seeded map-range order, step counters at function entries and loop heads, sync.Mutex/RWMutex Lock and sync.Once.Do rewritten to forms that yield to the scheduler); variant N checks build against /repo directly",
            "baseline_off_cmd": "cd /repo && GOFLAGS=-mod=mod GOPROXY=off GOSUMDB=off GOTOOLCHAIN=local go test -vet=off -count=1 ./...",
            "source_commits": [],
            "add_only": True,
        },
        "engines": [{
            "name": "vsim", "path": "sim/ instr/ harness/ check",
            "serves_properties": [c["property_id"] for c in checks],
            "kind_free_text": "deterministic simulation with fault injection: own choice-tape PRNG, cooperative task scheduler, simulated streams/disk/file system, AST instrumentation of a scratch copy, tape minimisation and exact replay",
        }],
        "checks": checks,
        "not_applicable": na,
        "notes": "Exit codes: 0 held (KNOWN-FINDING lines allowed), 1 VIOLATION property=<id> replay=<path>, 2 harness/build/determinism trouble. VERIF_SEED selects the base seed; VERIF_BUDGET_S / VERIF_RUNS override budgets. Genuine defects and their fix: commits are listed in known_findings.json.",
    }
    json.dump(m, open(os.path.join(HERE, "MANIFEST.json"), "w"), indent=1, ensure_ascii=False)
    print("MANIFEST.json:", len(checks), "checks,", len(na), "not applicable")

if __name__ == "__main__":
    main()
