// Package simio provides the simulated byte streams: an io.Reader whose
// delivery schedule, EOF placement and faults are decided by the run's tape,
// and an io.Writer whose acceptance is.  These sit behind interfaces the
// library already takes, so the code under test is the real, unmodified code.
package simio

import (
	"errors"
	"fmt"
	"io"

	"verifsim/rt"
)

// ErrIO is the injected read/write error (EIO).
var ErrIO = errors.New("simio: injected I/O error (EIO)")

// tempErr is an injected read error that calls itself temporary (EAGAIN, EINTR,
// a passed read deadline): callers that retry such errors must still come back
// when it persists.
type tempErr struct{ msg string }

func (e *tempErr) Error() string   { return e.msg }
func (e *tempErr) Temporary() bool { return true }
func (e *tempErr) Timeout() bool   { return true }

// ErrTemporary is the injected error whose Temporary() and Timeout() report true.
var ErrTemporary error = &tempErr{"simio: injected i/o timeout (temporary)"}

// ErrNoSpace is the injected ENOSPC.
var ErrNoSpace = errors.New("simio: injected no space left on device (ENOSPC)")

// Delivery modes.
const (
	ModeAll    = iota // as much as the caller's buffer takes
	ModeOne           // one byte per call
	ModeSmall         // 1..8 bytes per call (tape per call)
	ModeRandom        // 1..len(p) per call (tape per call)
	ModeSplit         // all, but split at the given interesting offsets
	nModes
	ModeFixed // Chunk bytes per call (explicit profile, draws nothing)
)

var modeNames = []string{"all", "one", "small", "random", "split", "n/a", "fixed"}

// Reader is the simulated stream source.
type Reader struct {
	run  *rt.Run
	name string
	data []byte
	pos  int

	Mode        int
	EOFTogether bool // deliver (n, io.EOF) with the last bytes
	ZeroReads   bool // occasionally return (0, nil)
	lastZero    bool
	Splits      map[int]bool
	Chunk       int

	truncAt   int // -1: none; EOF after this many bytes
	failAt    int // -1: none; ErrIO once pos reaches this offset (sticky)
	failed    bool
	onceAt    int // -1: none; ErrIO exactly once when pos reaches this offset (transient)
	onceHit   bool
	Calls     int
	Delivered int
	SawEOF    bool

	grown    []byte // bytes appended to the stream after it reported EOF once (a file that grows)
	errv     error  // what a fault returns (ErrIO, or ErrTemporary)
	withData bool   // the sticky fault arrives together with the last bytes before it: (n>0, err)
}

// drawErrFlavour decides, from the tape, which error value a planned fault
// returns and whether it comes together with data.
func (rd *Reader) drawErrFlavour() {
	t := rd.run.T
	rd.errv = ErrIO
	switch t.Weighted([]int{4, 1, 1}, "rd.errflavour") {
	case 1:
		rd.errv = ErrTemporary
		rd.run.Stats["rd.err.temporary"]++
	case 2:
		// what a decompressor or io.ReadFull reports for a stream cut short: a
		// failure, not an end
		rd.errv = io.ErrUnexpectedEOF
		rd.run.Stats["rd.err.unexpected-eof"]++
	}
	rd.withData = t.Bool(1, 4, "rd.errwithdata")
}

// SetErrFlavour fixes the fault's error value and style explicitly (for
// workloads that must present the same stream several times); call it after
// FailAt / FailOnceAt.  It draws nothing.
func (rd *Reader) SetErrFlavour(temporary, withData bool) {
	rd.errv = ErrIO
	if temporary {
		rd.errv = ErrTemporary
	}
	rd.withData = withData
}

func (rd *Reader) faultErr() error {
	if rd.errv == nil {
		return ErrIO
	}
	return rd.errv
}

// NewReader draws a delivery profile from the tape.  The all-zero tape gives
// ModeAll, EOF separate, no zero reads.
func NewReader(r *rt.Run, name string, data []byte) *Reader {
	rd := &Reader{run: r, name: name, data: data, truncAt: -1, failAt: -1, onceAt: -1}
	t := r.T
	rd.Mode = t.Weighted([]int{4, 2, 2, 2, 2}, "rd.mode")
	rd.EOFTogether = t.Bool(1, 3, "rd.eof")
	rd.ZeroReads = t.Bool(1, 8, "rd.zero")
	if rd.Mode != ModeAll || rd.EOFTogether || rd.ZeroReads {
		r.NonTrivial = true
	}
	r.Event("reader", modeNames[rd.Mode], fmt.Sprintf("%s len=%d eofTogether=%v zero=%v", name, len(data), rd.EOFTogether, rd.ZeroReads))
	r.Stats["rd.mode."+modeNames[rd.Mode]]++
	return rd
}

// NewPlainReader has the plain profile (everything at once, separate EOF) and draws nothing.
func NewPlainReader(r *rt.Run, name string, data []byte) *Reader {
	return &Reader{run: r, name: name, data: data, truncAt: -1, failAt: -1, onceAt: -1}
}

// NewFixedReader has an explicit, replicable profile: chunk bytes per call
// (0 = as much as fits) and the EOF style.  It draws nothing from the tape.
func NewFixedReader(r *rt.Run, name string, data []byte, chunk int, eofTogether bool) *Reader {
	rd := &Reader{run: r, name: name, data: data, truncAt: -1, failAt: -1, onceAt: -1, Mode: ModeFixed, Chunk: chunk, EOFTogether: eofTogether}
	return rd
}

// SetSplits sets the offsets at which ModeSplit cuts a delivery.
func (rd *Reader) SetSplits(offs []int) {
	rd.Splits = map[int]bool{}
	for _, o := range offs {
		rd.Splits[o] = true
	}
}

// TruncateAt makes the stream end (EOF) after k bytes: the reader's view of a
// crash / close / torn file.
func (rd *Reader) TruncateAt(k int) {
	if k < len(rd.data) {
		rd.truncAt = k
		rd.run.Fault("read.truncate")
		rd.run.Event("fault", "truncate", fmt.Sprintf("%s at=%d", rd.name, k))
	}
}

// FailAt makes the stream return ErrIO (sticky) once k bytes were delivered.
func (rd *Reader) FailAt(k int) {
	rd.failAt = k
	if rd.Mode != ModeFixed {
		rd.drawErrFlavour()
	}
	rd.run.Event("fault", "eio-planned", fmt.Sprintf("%s at=%d", rd.name, k))
}

func (rd *Reader) limit() int {
	lim := len(rd.data)
	if rd.truncAt >= 0 && rd.truncAt < lim {
		lim = rd.truncAt
	}
	return lim
}

func (rd *Reader) Read(p []byte) (int, error) {
	r := rd.run
	rd.Calls++
	r.Tick()
	r.Yield("read")
	if rd.failed {
		return 0, rd.faultErr()
	}
	if rd.onceAt >= 0 && !rd.onceHit && rd.pos >= rd.onceAt {
		rd.onceHit = true
		r.Fault("read.transient-eio")
		r.Event("read", "transient-eio", rd.name)
		return 0, rd.faultErr()
	}
	lim := rd.limit()
	failLim := -1
	endLim := lim
	if rd.onceAt >= 0 && !rd.onceHit && rd.onceAt < lim && rd.onceAt > rd.pos {
		lim = rd.onceAt // deliver exactly up to the fault point first
	}
	if rd.failAt >= 0 && rd.failAt <= lim {
		failLim = rd.failAt
		lim = failLim
	}
	if failLim >= 0 && rd.pos >= failLim {
		rd.failed = true
		r.Fault("read.eio")
		r.Event("read", "eio", rd.name)
		return 0, rd.faultErr()
	}
	if len(p) == 0 {
		return 0, nil
	}
	if rd.pos >= lim && rd.SawEOF && rd.grown != nil && rd.truncAt < 0 {
		// the end reported earlier was not final: the file has grown since
		rd.data = append(append([]byte{}, rd.data...), rd.grown...)
		rd.grown = nil
		lim = len(rd.data)
		endLim = lim
		r.Fault("read.grew-after-eof")
		r.Event("read", "grew-after-eof", rd.name)
	}
	if rd.pos >= lim {
		rd.SawEOF = true
		r.Event("read", "eof", rd.name)
		return 0, io.EOF
	}
	if rd.ZeroReads && !rd.lastZero && r.T.Bool(1, 6, "rd.zero?") {
		rd.lastZero = true
		r.Stats["rd.zero_reads"]++
		r.Event("read", "zero", rd.name)
		return 0, nil
	}
	rd.lastZero = false
	n := lim - rd.pos
	if n > len(p) {
		n = len(p)
	}
	switch rd.Mode {
	case ModeOne:
		n = 1
	case ModeSmall:
		k := 1 + r.T.Draw(8, "rd.n")
		if k < n {
			n = k
		}
	case ModeRandom:
		n = 1 + r.T.Draw(n, "rd.n")
	case ModeFixed:
		if rd.Chunk > 0 && rd.Chunk < n {
			n = rd.Chunk
		}
	case ModeSplit:
		for i := 1; i < n; i++ {
			if rd.Splits[rd.pos+i] {
				n = i
				break
			}
		}
	}
	copy(p, rd.data[rd.pos:rd.pos+n])
	rd.pos += n
	rd.Delivered += n
	if failLim >= 0 && rd.pos >= failLim && rd.withData {
		// the error arrives in the same call as the last bytes before it
		rd.failed = true
		r.Fault("read.eio")
		r.Stats["rd.err.with-data"]++
		r.Event("read", "data+eio", fmt.Sprintf("%s n=%d", rd.name, n))
		return n, rd.faultErr()
	}
	atEnd := failLim < 0 && rd.pos >= endLim
	if atEnd && rd.EOFTogether {
		rd.SawEOF = true
		r.Stats["rd.n_eof_together"]++
		r.Event("read", "data+eof", fmt.Sprintf("%s n=%d", rd.name, n))
		return n, io.EOF
	}
	r.Event("read", "data", fmt.Sprintf("%s n=%d", rd.name, n))
	return n, nil
}

// FailOnceAt plans a TRANSIENT fault: when k bytes have been delivered the next
// Read returns (0, ErrIO) exactly once; the stream then continues normally.
func (rd *Reader) FailOnceAt(k int) {
	rd.onceAt = k
	if rd.Mode != ModeFixed {
		rd.drawErrFlavour()
	}
	rd.run.Event("fault", "transient-eio-planned", fmt.Sprintf("%s at=%d", rd.name, k))
}

// GrowAfterEOF makes the stream's end non-final: once EOF has been reported,
// later reads deliver extra (a file another process appends to; a pipe whose
// writer continues).
func (rd *Reader) GrowAfterEOF(extra []byte) { rd.grown = extra }

// OnceHit reports whether the transient fault was returned to the caller.
func (rd *Reader) OnceHit() bool { return rd.onceHit }

// Failed reports whether the planned EIO was actually returned to the caller.
func (rd *Reader) Failed() bool { return rd.failed }

// Pos returns how many bytes were delivered.
func (rd *Reader) Pos() int { return rd.pos }

// ---------------------------------------------------------------------------

// Writer is the simulated sink.
type Writer struct {
	run    *rt.Run
	name   string
	Buf    []byte
	failAt int // -1 none: error once this many bytes were accepted
	short  bool
	err    error
	failed bool
	Calls  int
	Fired  bool

	Sizes []int // bytes offered per Write call (fault-free bookkeeping)
	Offs  []int // offset in Buf at which each call started

	// transient fault: the onceAt-th Write call (1-based) accepts nothing and
	// returns onceErr; every other call is healthy
	onceAt  int
	onceErr error

	// transient partial write: the Write call that crosses offset partialAt
	// accepts the bytes up to it and returns partialErr; later calls are healthy
	partialAt  int
	partialErr error
	partialHit bool
}

// PartialOnceAt plans a TRANSIENT partial write at byte offset k (k > 0).
func (w *Writer) PartialOnceAt(k int, err error) {
	w.partialAt, w.partialErr = k, err
}

// FailOnceAtCall plans a TRANSIENT fault: call number n (1-based) accepts no
// bytes and returns err; the sink is healthy before and after.
func (w *Writer) FailOnceAtCall(n int, err error) {
	w.onceAt, w.onceErr = n, err
}

func NewWriter(r *rt.Run, name string) *Writer {
	return &Writer{run: r, name: name, failAt: -1}
}

// FailAt plans a sticky fault once k bytes were accepted.  With short=true the
// faulting call accepts the bytes up to k and returns io.ErrShortWrite,
// otherwise it returns err (ENOSPC / EIO) with the partial count.
func (w *Writer) FailAt(k int, err error, short bool) {
	w.failAt = k
	w.err = err
	w.short = short
}

func (w *Writer) Write(p []byte) (int, error) {
	r := w.run
	w.Calls++
	r.Tick()
	r.Yield("write")
	if w.onceAt > 0 && w.Calls == w.onceAt {
		w.Fired = true
		r.Fault("write.transient")
		r.Event("write", "transient-fault", fmt.Sprintf("%s call=%d len=%d", w.name, w.Calls, len(p)))
		return 0, w.onceErr
	}
	w.Sizes = append(w.Sizes, len(p))
	w.Offs = append(w.Offs, len(w.Buf))
	if w.partialAt > 0 && !w.partialHit && len(w.Buf) < w.partialAt && len(w.Buf)+len(p) > w.partialAt {
		n := w.partialAt - len(w.Buf)
		w.Buf = append(w.Buf, p[:n]...)
		w.partialHit = true
		w.Fired = true
		r.Fault("write.transient-partial")
		r.Event("write", "transient-partial", fmt.Sprintf("%s n=%d of %d", w.name, n, len(p)))
		return n, w.partialErr
	}
	if w.failed {
		return 0, w.err
	}
	if w.failAt >= 0 && len(w.Buf)+len(p) > w.failAt {
		n := w.failAt - len(w.Buf)
		if n < 0 {
			n = 0
		}
		w.Buf = append(w.Buf, p[:n]...)
		w.failed = true
		w.Fired = true
		if w.short {
			w.err = io.ErrShortWrite
			r.Fault("write.short")
		} else if w.err == ErrNoSpace {
			r.Fault("write.enospc")
		} else {
			r.Fault("write.eio")
		}
		r.Event("write", "fault", fmt.Sprintf("%s n=%d of %d", w.name, n, len(p)))
		return n, w.err
	}
	w.Buf = append(w.Buf, p...)
	r.Event("write", "ok", fmt.Sprintf("%s n=%d", w.name, len(p)))
	return len(p), nil
}
