// Package simdisk is the simulated block device behind io.ReaderAt: the
// "disk" a .deb / ar archive lives on.
package simdisk

import (
	"fmt"
	"io"

	"verifsim/rt"
	"verifsim/simio"
)

// ErrBeyondEnd is returned by the BeyondEndErr flavour for reads that start past the end.
var ErrBeyondEnd = fmt.Errorf("simdisk: offset beyond the end of the device")

// Disk implements io.ReaderAt over stored bytes.
type Disk struct {
	run  *rt.Run
	name string
	Data []byte

	// EOFEager: a read that is fully satisfied and ends exactly at end of
	// file returns (len(p), io.EOF) - explicitly allowed by io.ReaderAt.
	EOFEager bool

	// BeyondEndErr: a read that STARTS beyond the end of the device fails with
	// a non-EOF error ("invalid offset"), as mmap-style or range-request
	// backed ReaderAts do.  Reads at or before the end behave as usual.
	BeyondEndErr bool

	failLo, failHi int // EIO when a read overlaps [failLo,failHi)
	Calls          int
	MaxCalls       int // 0 = unlimited; exceeded => BudgetExceeded panic
	Touched        [][2]int
	Fired          bool

	// YieldAfter: also yield to the scheduler AFTER the bytes were handed out,
	// i.e. between "the data arrived" and "the caller looks at it" (a goroutine
	// can be descheduled there just as well)
	YieldAfter bool

	// RangeOnce: the FailRange fault fires only the first time the range is touched
	RangeOnce bool

	// transient fault: ReadAt call number onceAt (1-based) fails with EIO and
	// delivers nothing; the disk is healthy before and after
	onceAt int

	// sequential state for the bytes.Reader-like flavour (Read/Seek/Len): it
	// must never influence ReadAt
	seqPos int64

	// Quiet: no events, ticks or yields.  Needed when a decoder that runs its
	// own goroutine (kjk/lzma) reads the disk: its reads are not ordered
	// relative to the calling task, so they must not enter the trace.
	Quiet bool
	// ScratchTail: on a short read the rest of the caller's buffer is left
	// holding the bytes of the previous full transfer (legal: the caller must
	// only look at p[:n])
	ScratchTail bool
	lastFull    []byte
}

func New(r *rt.Run, name string, data []byte) *Disk {
	return &Disk{run: r, name: name, Data: data, failLo: -1}
}

// DrawProfile picks strict vs eof-eager from the tape (0 = strict, like os.File).
func (d *Disk) DrawProfile() {
	d.EOFEager = d.run.T.Bool(1, 2, "disk.eofeager")
	d.ScratchTail = d.run.T.Bool(1, 4, "disk.scratchtail")
	if d.EOFEager {
		d.run.NonTrivial = true
		d.run.Stats["disk.eofeager"]++
	} else {
		d.run.Stats["disk.strict"]++
	}
	d.run.Event("disk", fmt.Sprintf("eofeager=%v", d.EOFEager), fmt.Sprintf("%s len=%d", d.name, len(d.Data)))
}

// FailOnceAtCall plans a TRANSIENT EIO for ReadAt call number n (1-based).
func (d *Disk) FailOnceAtCall(n int) { d.onceAt = n }

// FailRange plans EIO for any read overlapping [lo,hi).
func (d *Disk) FailRange(lo, hi int) { d.failLo, d.failHi = lo, hi }

func (d *Disk) ReadAt(p []byte, off int64) (int, error) {
	r := d.run
	d.Calls++
	if d.Quiet {
		return d.quietReadAt(p, off)
	}
	r.Tick()
	if d.MaxCalls > 0 && d.Calls > d.MaxCalls {
		panic(rt.BudgetExceeded{Steps: int64(d.Calls)})
	}
	r.Yield("readat")
	if d.onceAt > 0 && d.Calls == d.onceAt {
		d.Fired = true
		r.Fault("disk.transient-eio")
		r.Event("readat", "transient-eio", fmt.Sprintf("%s off=%d len=%d call=%d", d.name, off, len(p), d.Calls))
		return 0, simio.ErrIO
	}
	if off < 0 {
		return 0, fmt.Errorf("simdisk: negative offset")
	}
	if len(d.Touched) < 4096 {
		d.Touched = append(d.Touched, [2]int{int(off), len(p)})
	}
	end := int(off) + len(p)
	if end > len(d.Data) {
		end = len(d.Data) // bytes past the end of the device cannot be bad
	}
	if d.failLo >= 0 && int(off) < d.failHi && end > d.failLo && int(off) < end {
		// deliver the prefix before the bad range, then EIO
		n := 0
		if int(off) < d.failLo {
			n = d.failLo - int(off)
			if int(off)+n > len(d.Data) {
				n = len(d.Data) - int(off)
				if n < 0 {
					n = 0
				}
			}
			copy(p, d.Data[int(off):int(off)+n])
		}
		d.Fired = true
		if d.RangeOnce {
			d.failLo = -1 // the bad range heals after it was hit once (transient medium error)
		}
		r.Fault("disk.eio")
		r.Event("readat", "eio", fmt.Sprintf("%s off=%d len=%d", d.name, off, len(p)))
		return n, simio.ErrIO
	}
	if d.BeyondEndErr && off > int64(len(d.Data)) {
		r.Stats["disk.beyond_end_error_returned"]++
		r.Event("readat", "beyond-end-error", fmt.Sprintf("%s off=%d len=%d", d.name, off, len(p)))
		return 0, ErrBeyondEnd
	}
	if off >= int64(len(d.Data)) {
		r.Event("readat", "eof", fmt.Sprintf("%s off=%d len=%d", d.name, off, len(p)))
		return 0, io.EOF
	}
	n := copy(p, d.Data[off:])
	if n < len(p) {
		if d.ScratchTail && len(d.lastFull) > 0 {
			// a device that reads through a bounce buffer: beyond the n bytes it
			// reports, p holds whatever the previous transfer left there ("ReadAt
			// may use all of p as scratch space during the call")
			for i := n; i < len(p); i++ {
				p[i] = d.lastFull[i%len(d.lastFull)]
			}
			r.Stats["disk.scratch_tail_left_in_buffer"]++
		}
		r.Event("readat", "short+eof", fmt.Sprintf("%s off=%d len=%d n=%d", d.name, off, len(p), n))
		return n, io.EOF
	}
	if d.ScratchTail {
		d.lastFull = append(d.lastFull[:0], p...)
	}
	if d.EOFEager && int(off)+n == len(d.Data) {
		r.Stats["disk.eager_eof_returned"]++
		r.Event("readat", "full+eof", fmt.Sprintf("%s off=%d len=%d", d.name, off, len(p)))
		return n, io.EOF
	}
	r.Event("readat", "ok", fmt.Sprintf("%s off=%d len=%d", d.name, off, len(p)))
	if d.YieldAfter {
		r.Yield("readat-done")
	}
	return n, nil
}

func (d *Disk) quietReadAt(p []byte, off int64) (int, error) {
	if off < 0 {
		return 0, fmt.Errorf("simdisk: negative offset")
	}
	if off >= int64(len(d.Data)) {
		return 0, io.EOF
	}
	n := copy(p, d.Data[off:])
	if n < len(p) {
		return n, io.EOF
	}
	if d.EOFEager && int(off)+n == len(d.Data) {
		return n, io.EOF
	}
	return n, nil
}

// Seq wraps a Disk as a bytes.Reader-like object: besides io.ReaderAt it has
// a sequential position with Read, Seek, Len and Size.  Callers commonly hand
// such objects (*bytes.Reader, *os.File) to the library; the sequential state
// must not influence what ReadAt-based code sees.
type Seq struct {
	*Disk
}

func (s Seq) Read(p []byte) (int, error) {
	if s.seqPos >= int64(len(s.Data)) {
		return 0, io.EOF
	}
	n := copy(p, s.Data[s.seqPos:])
	s.Disk.seqPos += int64(n)
	return n, nil
}

func (s Seq) Seek(off int64, whence int) (int64, error) {
	switch whence {
	case io.SeekStart:
	case io.SeekCurrent:
		off += s.seqPos
	case io.SeekEnd:
		off += int64(len(s.Data))
	}
	if off < 0 {
		return 0, fmt.Errorf("simdisk: negative position")
	}
	s.Disk.seqPos = off
	return off, nil
}

// Len is the number of UNREAD bytes, like bytes.Reader.Len.
func (s Seq) Len() int {
	if s.seqPos >= int64(len(s.Data)) {
		return 0
	}
	return int(int64(len(s.Data)) - s.seqPos)
}

// Size is the total size, like bytes.Reader.Size.
func (s Seq) Size() int64 { return int64(len(s.Data)) }
