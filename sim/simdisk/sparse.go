package simdisk

import (
	"fmt"
	"io"

	"verifsim/rt"
)

// Sparse is a device far larger than memory: a few real segments at given
// offsets, every other byte is Fill(offset).  Reads count as steps and yield
// like those of Disk.  It exists to present members whose sizes do not fit 31
// or 32 bits.
type Sparse struct {
	run      *rt.Run
	name     string
	Size     int64
	Segments map[int64][]byte
	Fill     func(off int64) byte
	Calls    int
}

func NewSparse(r *rt.Run, name string, size int64, fill func(int64) byte) *Sparse {
	return &Sparse{run: r, name: name, Size: size, Segments: map[int64][]byte{}, Fill: fill}
}

// ByteAt returns the device's byte at off.
func (s *Sparse) ByteAt(off int64) byte {
	for base, seg := range s.Segments {
		if off >= base && off < base+int64(len(seg)) {
			return seg[off-base]
		}
	}
	return s.Fill(off)
}

func (s *Sparse) ReadAt(p []byte, off int64) (int, error) {
	r := s.run
	s.Calls++
	r.Tick()
	r.Yield("disk")
	if off < 0 {
		return 0, fmt.Errorf("simdisk: negative offset")
	}
	if off >= s.Size {
		return 0, io.EOF
	}
	n := len(p)
	if int64(n) > s.Size-off {
		n = int(s.Size - off)
	}
	for i := 0; i < n; i++ {
		p[i] = s.ByteAt(off + int64(i))
	}
	r.Event("disk", "readat", fmt.Sprintf("%s off=%d n=%d", s.name, off, n))
	if n < len(p) {
		return n, io.EOF
	}
	return n, nil
}
