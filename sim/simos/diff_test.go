package simos

// Differential self-test of the simulated file system: random operation
// sequences are driven through simos and through the real package os in a
// temporary directory; results (error class) and the final trees must agree.

import (
	"errors"
	"fmt"
	"io"
	"io/fs"
	realos "os"
	"path/filepath"
	"sort"
	"strings"
	"syscall"
	"testing"

	"verifsim/rt"
)

func errClass(err error) string {
	if err == nil {
		return "ok"
	}
	switch {
	case errors.Is(err, fs.ErrNotExist):
		return "ENOENT"
	case errors.Is(err, fs.ErrExist):
		return "EEXIST"
	case errors.Is(err, syscall.ENOTDIR):
		return "ENOTDIR"
	case errors.Is(err, syscall.EISDIR):
		return "EISDIR"
	case errors.Is(err, syscall.ENOTEMPTY):
		return "ENOTEMPTY"
	case err == io.EOF:
		return "EOF"
	}
	return "other:" + err.Error()
}

func realTree(root string) map[string]string {
	out := map[string]string{}
	filepath.Walk(root, func(p string, info fs.FileInfo, err error) error {
		if err != nil || p == root {
			return nil
		}
		rel := "/" + strings.TrimPrefix(p, root+"/")
		if info.IsDir() {
			out[rel] = "dir"
		} else {
			b, _ := realos.ReadFile(p)
			out[rel] = string(b)
		}
		return nil
	})
	return out
}

func TestDifferentialAgainstRealOS(t *testing.T) {
	errnoDiffs := 0
	defer func() { t.Logf("calls where both failed with different errno classes: %d", errnoDiffs) }()
	names := []string{"a", "b", "d1", "d1/x", "d1/y", "d2", "d2/sub", "d2/sub/z", "a/b"}
	for seed := uint64(1); seed <= 300; seed++ {
		tape := rt.NewTape(seed)
		run := rt.NewRun(tape)
		sim := New(run)
		Install(sim)
		root, err := realos.MkdirTemp("", "simosdiff")
		if err != nil {
			t.Fatal(err)
		}
		t.Cleanup(func() { realos.RemoveAll(root) })
		var log []string
		type pair struct{ sim, real string }
		check := func(op string, e1, e2 error) {
			c1, c2 := errClass(e1), errClass(e2)
			log = append(log, fmt.Sprintf("%s -> sim=%s real=%s", op, c1, c2))
			if strings.HasPrefix(c1, "other") && strings.HasPrefix(c2, "other") {
				return
			}
			bothFail := c1 != "ok" && c2 != "ok" && c1 != "EOF" && c2 != "EOF"
			if bothFail && c1 != c2 {
				// both refuse; which errno wins when several apply is a kernel detail
				errnoDiffs++
				return
			}
			if c1 != c2 {
				t.Fatalf("seed %d: %s: sim=%v real=%v\nhistory:\n%s", seed, op, e1, e2, strings.Join(log, "\n"))
			}
		}
		for step := 0; step < 40; step++ {
			n := names[tape.Draw(len(names), "name")]
			n2 := names[tape.Draw(len(names), "name2")]
			rp, rp2 := filepath.Join(root, n), filepath.Join(root, n2)
			sp, sp2 := "/"+n, "/"+n2
			switch tape.Draw(9, "op") {
			case 0:
				data := []byte(fmt.Sprintf("content-%d-%d", seed, step))
				check("writefile "+n, WriteFile(sp, data, 0o644), realos.WriteFile(rp, data, 0o644))
			case 1:
				check("mkdir "+n, Mkdir(sp, 0o755), realos.Mkdir(rp, 0o755))
			case 2:
				check("remove "+n, Remove(sp), realos.Remove(rp))
			case 3:
				check("rename "+n+" "+n2, Rename(sp, sp2), realos.Rename(rp, rp2))
			case 4:
				d1, e1 := ReadFile(sp)
				d2, e2 := realos.ReadFile(rp)
				check("readfile "+n, e1, e2)
				if e1 == nil && e2 == nil && string(d1) != string(d2) {
					t.Fatalf("seed %d: readfile %s: content differs", seed, n)
				}
			case 5:
				i1, e1 := Stat(sp)
				i2, e2 := realos.Stat(rp)
				check("stat "+n, e1, e2)
				if e1 == nil && e2 == nil && (i1.IsDir() != i2.IsDir() || (!i1.IsDir() && i1.Size() != i2.Size())) {
					t.Fatalf("seed %d: stat %s differs", seed, n)
				}
			case 6:
				// create + partial write + close (O_TRUNC semantics)
				f1, e1 := Create(sp)
				f2, e2 := realos.Create(rp)
				check("create "+n, e1, e2)
				if e1 == nil {
					f1.Write([]byte("xy"))
					f1.Close()
				}
				if e2 == nil {
					f2.Write([]byte("xy"))
					f2.Close()
				}
			case 7:
				e1 := MkdirAll(sp, 0o755)
				e2 := realos.MkdirAll(rp, 0o755)
				check("mkdirall "+n, e1, e2)
			case 8:
				// open handle survives unlink
				f1, e1 := Open(sp)
				f2, e2 := realos.Open(rp)
				check("open "+n, e1, e2)
				if e1 == nil && e2 == nil {
					i1, _ := f1.Stat()
					i2, _ := f2.Stat()
					if !i1.IsDir() && !i2.IsDir() {
						Remove(sp)
						realos.Remove(rp)
						b1, _ := io.ReadAll(f1)
						b2, _ := io.ReadAll(f2)
						if string(b1) != string(b2) {
							t.Fatalf("seed %d: read after unlink differs", seed)
						}
					}
				}
				if f1 != nil {
					f1.Close()
				}
				if f2 != nil {
					f2.Close()
				}
			}
		}
		st, rtree := sim.Snapshot(), realTree(root)
		var ks []string
		for k := range st {
			ks = append(ks, k)
		}
		for k := range rtree {
			if _, ok := st[k]; !ok {
				ks = append(ks, k)
			}
		}
		sort.Strings(ks)
		for _, k := range ks {
			if st[k] != rtree[k] {
				t.Fatalf("seed %d: final trees differ at %s: sim=%q real=%q\nhistory:\n%s", seed, k, st[k], rtree[k], strings.Join(log, "\n"))
			}
		}
		Install(nil)
		realos.RemoveAll(root)
	}
}
