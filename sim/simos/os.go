package simos

// The part of package os a file-handling library can plausibly use, with the
// same names and signatures, on the simulated file system.

import (
	"errors"
	"fmt"
	"io"
	"io/fs"
	realos "os"
	"path"
	"sort"
	"strings"
	"syscall"
)

type (
	FileInfo  = fs.FileInfo
	FileMode  = fs.FileMode
	PathError = fs.PathError
	DirEntry  = fs.DirEntry
	LinkError = realos.LinkError
	Signal    = realos.Signal
)

const (
	O_RDONLY = realos.O_RDONLY
	O_WRONLY = realos.O_WRONLY
	O_RDWR   = realos.O_RDWR
	O_APPEND = realos.O_APPEND
	O_CREATE = realos.O_CREATE
	O_EXCL   = realos.O_EXCL
	O_SYNC   = realos.O_SYNC
	O_TRUNC  = realos.O_TRUNC

	ModeDir           = fs.ModeDir
	ModeAppend        = fs.ModeAppend
	ModeSymlink       = fs.ModeSymlink
	ModePerm          = fs.ModePerm
	ModeType          = fs.ModeType
	PathSeparator     = '/'
	PathListSeparator = ':'
	DevNull           = "/dev/null"
	SEEK_SET          = 0
	SEEK_CUR          = 1
	SEEK_END          = 2
)

var (
	ErrInvalid    = fs.ErrInvalid
	ErrPermission = fs.ErrPermission
	ErrExist      = fs.ErrExist
	ErrNotExist   = fs.ErrNotExist
	ErrClosed     = fs.ErrClosed

	// pass-throughs that do not touch the file system tree
	Args   = realos.Args
	Stdin  = realos.Stdin
	Stdout = realos.Stdout
	Stderr = realos.Stderr
)

func IsNotExist(err error) bool         { return realos.IsNotExist(err) }
func IsExist(err error) bool            { return realos.IsExist(err) }
func IsPermission(err error) bool       { return realos.IsPermission(err) }
func IsTimeout(err error) bool          { return realos.IsTimeout(err) }
func Getenv(k string) string            { return realos.Getenv(k) }
func LookupEnv(k string) (string, bool) { return realos.LookupEnv(k) }
func Exit(code int)                     { realos.Exit(code) }
func Getpid() int                       { return 1 }
func Getwd() (string, error) {
	if cur != nil && cur.cwd != "" {
		return cur.cwd, nil
	}
	return "/", nil
}
func TempDir() string              { return "/tmp" }
func IsPathSeparator(c uint8) bool { return c == '/' }
func SameFile(a, b FileInfo) bool {
	x, ok1 := a.(fileInfo)
	y, ok2 := b.(fileInfo)
	return ok1 && ok2 && x.id == y.id
}

// File is an open handle on the simulated file system.
type File struct {
	f      *FS
	ino    *inode
	name   string
	flag   int
	pos    int64
	closed bool
}

func Open(name string) (*File, error) { return OpenFile(name, O_RDONLY, 0) }
func Create(name string) (*File, error) {
	return OpenFile(name, O_RDWR|O_CREATE|O_TRUNC, 0o666)
}

func OpenFile(name string, flag int, perm FileMode) (*File, error) {
	opName := "open"
	if flag&O_CREATE != 0 {
		opName = "create"
	}
	g, err := enter(opName, name, "")
	if err != nil {
		return nil, err
	}
	f := g.f
	n, parent, base, errno := f.lookup(name)
	if errno != 0 {
		err = pathErr("open", name, errno)
		g.leave(0, err)
		return nil, err
	}
	if n == nil {
		if flag&O_CREATE == 0 {
			err = pathErr("open", name, syscall.ENOENT)
			g.leave(0, err)
			return nil, err
		}
		if parent == nil || !parent.dir {
			err = pathErr("open", name, syscall.ENOTDIR)
			g.leave(0, err)
			return nil, err
		}
		n = f.newInode(false, f.devOf(clean(name)))
		n.mode = perm & fs.ModePerm
		parent.kids[base] = n
	} else {
		if flag&O_CREATE != 0 && flag&O_EXCL != 0 {
			err = pathErr("open", name, syscall.EEXIST)
			g.leave(0, err)
			return nil, err
		}
		if n.dir && flag&(O_WRONLY|O_RDWR) != 0 {
			err = pathErr("open", name, syscall.EISDIR)
			g.leave(0, err)
			return nil, err
		}
		if flag&O_TRUNC != 0 && !n.dir {
			n.data = nil
		}
	}
	if f.MaxOpen > 0 && f.OpenCount >= f.MaxOpen {
		err = pathErr("open", name, syscall.EMFILE)
		g.leave(0, err)
		return nil, err
	}
	f.OpenCount++
	g.leave(0, nil)
	return &File{f: f, ino: n, name: name, flag: flag}, nil
}

func (fl *File) Name() string { return fl.name }

func (fl *File) check(op string) error {
	if fl == nil {
		return ErrInvalid
	}
	if fl.closed {
		return &fs.PathError{Op: op, Path: fl.name, Err: ErrClosed}
	}
	return nil
}

func (fl *File) Read(p []byte) (int, error) {
	if err := fl.check("read"); err != nil {
		return 0, err
	}
	g, err := enter("read", fl.name, "")
	if err != nil {
		return 0, err
	}
	if fl.ino.dir {
		err = pathErr("read", fl.name, syscall.EISDIR)
		g.leave(0, err)
		return 0, err
	}
	if fl.flag&(O_WRONLY) != 0 {
		err = pathErr("read", fl.name, syscall.EBADF)
		g.leave(0, err)
		return 0, err
	}
	if fl.pos >= int64(len(fl.ino.data)) {
		if len(p) == 0 {
			g.leave(0, nil)
			return 0, nil
		}
		g.leave(0, io.EOF)
		return 0, io.EOF
	}
	n := copy(p, fl.ino.data[fl.pos:])
	if g.fault != nil && g.fault.Kind == "short" && n > 1 {
		n = n / 2 // a short read is legal and not an error
	}
	fl.pos += int64(n)
	g.leave(n, nil)
	return n, nil
}

func (fl *File) ReadAt(p []byte, off int64) (int, error) {
	if err := fl.check("read"); err != nil {
		return 0, err
	}
	g, err := enter("readat", fl.name, "")
	if err != nil {
		return 0, err
	}
	if off < 0 {
		err = pathErr("readat", fl.name, syscall.EINVAL)
		g.leave(0, err)
		return 0, err
	}
	if off >= int64(len(fl.ino.data)) {
		g.leave(0, io.EOF)
		return 0, io.EOF
	}
	n := copy(p, fl.ino.data[off:])
	if n < len(p) {
		g.leave(n, io.EOF)
		return n, io.EOF
	}
	g.leave(n, nil)
	return n, nil
}

func (fl *File) Write(p []byte) (int, error) {
	if err := fl.check("write"); err != nil {
		return 0, err
	}
	g, err := enter("write", fl.name, "")
	if err != nil {
		return 0, err
	}
	if fl.flag&(O_WRONLY|O_RDWR) == 0 {
		err = pathErr("write", fl.name, syscall.EBADF)
		g.leave(0, err)
		return 0, err
	}
	n := len(p)
	var werr error
	if g.fault != nil && g.fault.Kind == "short" {
		n = n / 2
		e := g.fault.Errno
		if e == 0 {
			e = syscall.ENOSPC
		}
		werr = pathErr("write", fl.name, e)
		if g.f.run != nil {
			g.f.run.Fault("fs.short-write")
		}
	}
	if fl.flag&O_APPEND != 0 {
		fl.pos = int64(len(fl.ino.data))
	}
	end := fl.pos + int64(n)
	if end > int64(len(fl.ino.data)) {
		nd := make([]byte, end)
		copy(nd, fl.ino.data)
		fl.ino.data = nd
	}
	copy(fl.ino.data[fl.pos:end], p[:n])
	fl.pos = end
	g.leave(n, werr)
	return n, werr
}

func (fl *File) WriteString(s string) (int, error) { return fl.Write([]byte(s)) }

func (fl *File) WriteAt(p []byte, off int64) (int, error) {
	if err := fl.check("write"); err != nil {
		return 0, err
	}
	g, err := enter("writeat", fl.name, "")
	if err != nil {
		return 0, err
	}
	end := off + int64(len(p))
	if end > int64(len(fl.ino.data)) {
		nd := make([]byte, end)
		copy(nd, fl.ino.data)
		fl.ino.data = nd
	}
	copy(fl.ino.data[off:end], p)
	g.leave(len(p), nil)
	return len(p), nil
}

func (fl *File) Seek(offset int64, whence int) (int64, error) {
	if err := fl.check("seek"); err != nil {
		return 0, err
	}
	var np int64
	switch whence {
	case 0:
		np = offset
	case 1:
		np = fl.pos + offset
	case 2:
		np = int64(len(fl.ino.data)) + offset
	default:
		return 0, pathErr("seek", fl.name, syscall.EINVAL)
	}
	if np < 0 {
		return 0, pathErr("seek", fl.name, syscall.EINVAL)
	}
	fl.pos = np
	return np, nil
}

func (fl *File) Close() error {
	if fl == nil {
		return ErrInvalid
	}
	if fl.closed {
		return &fs.PathError{Op: "close", Path: fl.name, Err: ErrClosed}
	}
	g, err := enter("close", fl.name, "")
	if err != nil {
		if g != nil && !g.refused {
			fl.closed = true // close(2) releases the descriptor even when it reports an error
			fl.f.OpenCount--
		}
		return err
	}
	fl.closed = true
	fl.f.OpenCount--
	g.leave(0, nil)
	return nil
}

func (fl *File) Sync() error {
	if err := fl.check("sync"); err != nil {
		return err
	}
	g, err := enter("sync", fl.name, "")
	if err != nil {
		return err
	}
	g.leave(0, nil)
	return nil
}

func (fl *File) Stat() (FileInfo, error) {
	if err := fl.check("stat"); err != nil {
		return nil, err
	}
	g, err := enter("fstat", fl.name, "")
	if err != nil {
		return nil, err
	}
	g.leave(0, nil)
	return infoOf(path.Base(fl.name), fl.ino), nil
}

func (fl *File) Truncate(size int64) error {
	if err := fl.check("truncate"); err != nil {
		return err
	}
	g, err := enter("ftruncate", fl.name, "")
	if err != nil {
		return err
	}
	truncateInode(fl.ino, size)
	g.leave(0, nil)
	return nil
}

func truncateInode(n *inode, size int64) {
	if size <= int64(len(n.data)) {
		n.data = n.data[:size]
		return
	}
	nd := make([]byte, size)
	copy(nd, n.data)
	n.data = nd
}

func (fl *File) Chmod(mode FileMode) error {
	if err := fl.check("chmod"); err != nil {
		return err
	}
	fl.ino.mode = fl.ino.mode&^fs.ModePerm | mode&fs.ModePerm
	return nil
}

func (fl *File) ReadDir(n int) ([]DirEntry, error) {
	if err := fl.check("readdir"); err != nil {
		return nil, err
	}
	g, err := enter("readdir", fl.name, "")
	if err != nil {
		return nil, err
	}
	if !fl.ino.dir {
		err = pathErr("readdir", fl.name, syscall.ENOTDIR)
		g.leave(0, err)
		return nil, err
	}
	out := listDir(fl.ino)
	g.leave(len(out), nil)
	return out, nil
}

func (fl *File) Readdirnames(n int) ([]string, error) {
	es, err := fl.ReadDir(n)
	names := []string{}
	for _, e := range es {
		names = append(names, e.Name())
	}
	return names, err
}

func listDir(n *inode) []DirEntry {
	names := make([]string, 0, len(n.kids))
	for k := range n.kids {
		names = append(names, k)
	}
	sort.Strings(names)
	out := make([]DirEntry, 0, len(names))
	for _, k := range names {
		out = append(out, dirEntry{infoOf(k, n.kids[k])})
	}
	return out
}

// ---------------------------------------------------------------------------
// path operations

func Stat(name string) (FileInfo, error)  { return stat("stat", name) }
func Lstat(name string) (FileInfo, error) { return stat("lstat", name) }

func stat(op, name string) (FileInfo, error) {
	g, err := enter(op, name, "")
	if err != nil {
		return nil, err
	}
	n, _, _, errno := g.f.lookup(name)
	if errno == 0 && n == nil {
		errno = syscall.ENOENT
	}
	if errno != 0 {
		err = pathErr(op, name, errno)
		g.leave(0, err)
		return nil, err
	}
	g.leave(0, nil)
	return infoOf(path.Base(clean(name)), n), nil
}

func Remove(name string) error {
	g, err := enter("remove", name, "")
	if err != nil {
		return err
	}
	n, parent, base, errno := g.f.lookup(name)
	if errno == 0 && n == nil {
		errno = syscall.ENOENT
	}
	if errno == 0 && parent == nil {
		errno = syscall.EBUSY
	}
	if errno == 0 && n.dir && len(n.kids) > 0 {
		errno = syscall.ENOTEMPTY
	}
	if errno != 0 {
		err = pathErr("remove", name, errno)
		g.leave(0, err)
		return err
	}
	delete(parent.kids, base)
	n.nlink--
	g.leave(0, nil)
	return nil
}

func RemoveAll(name string) error {
	g, err := enter("removeall", name, "")
	if err != nil {
		return err
	}
	n, parent, base, errno := g.f.lookup(name)
	if errno == 0 && n != nil && parent != nil {
		delete(parent.kids, base)
	}
	g.leave(0, nil)
	return nil
}

func Rename(oldpath, newpath string) error {
	g, err := enter("rename", oldpath, newpath)
	if err != nil {
		return err
	}
	f := g.f
	fail := func(e syscall.Errno) error {
		err := &LinkError{Op: "rename", Old: oldpath, New: newpath, Err: e}
		g.leave(0, err)
		return err
	}
	on, op, ob, e1 := f.lookup(oldpath)
	if e1 != 0 {
		return fail(e1)
	}
	if on == nil {
		return fail(syscall.ENOENT)
	}
	if op == nil {
		return fail(syscall.EBUSY)
	}
	nn, np, nb, e2 := f.lookup(newpath)
	if e2 != 0 {
		return fail(e2)
	}
	if np == nil || !np.dir {
		return fail(syscall.ENOTDIR)
	}
	if on.dir && strings.HasPrefix(clean(newpath)+"/", clean(oldpath)+"/") && clean(newpath) != clean(oldpath) {
		return fail(syscall.EINVAL) // a directory cannot be moved into itself
	}
	if f.devOf(clean(oldpath)) != f.devOf(clean(newpath)) {
		return fail(syscall.EXDEV)
	}
	if nn != nil {
		if nn.dir {
			// like package os on unix: "If newpath already exists and is not
			// a directory, Rename replaces it" - an existing directory is refused
			return fail(syscall.EEXIST)
		}
		if nn == on {
			g.leave(0, nil)
			return nil
		}
		if on.dir {
			return fail(syscall.ENOTDIR)
		}
		nn.nlink--
	}
	delete(op.kids, ob)
	np.kids[nb] = on
	g.leave(0, nil)
	return nil
}

func Link(oldname, newname string) error {
	g, err := enter("link", oldname, newname)
	if err != nil {
		return err
	}
	f := g.f
	fail := func(e syscall.Errno) error {
		err := &LinkError{Op: "link", Old: oldname, New: newname, Err: e}
		g.leave(0, err)
		return err
	}
	on, _, _, e1 := f.lookup(oldname)
	if e1 != 0 || on == nil {
		return fail(syscall.ENOENT)
	}
	if on.dir {
		return fail(syscall.EPERM)
	}
	nn, np, nb, e2 := f.lookup(newname)
	if e2 != 0 {
		return fail(e2)
	}
	if nn != nil {
		return fail(syscall.EEXIST)
	}
	if np == nil || !np.dir {
		return fail(syscall.ENOTDIR)
	}
	if f.devOf(clean(oldname)) != f.devOf(clean(newname)) {
		return fail(syscall.EXDEV)
	}
	np.kids[nb] = on
	on.nlink++
	g.leave(0, nil)
	return nil
}

func Symlink(oldname, newname string) error {
	return &LinkError{Op: "symlink", Old: oldname, New: newname, Err: syscall.EPERM}
}

func Readlink(name string) (string, error) {
	return "", pathErr("readlink", name, syscall.EINVAL)
}

func Mkdir(name string, perm FileMode) error {
	g, err := enter("mkdir", name, "")
	if err != nil {
		return err
	}
	n, parent, base, errno := g.f.lookup(name)
	if errno == 0 && n != nil {
		errno = syscall.EEXIST
	}
	if errno == 0 && (parent == nil || !parent.dir) {
		errno = syscall.ENOTDIR
	}
	if errno != 0 {
		err = pathErr("mkdir", name, errno)
		g.leave(0, err)
		return err
	}
	parent.kids[base] = g.f.newInode(true, g.f.devOf(clean(name)))
	g.leave(0, nil)
	return nil
}

func MkdirAll(p string, perm FileMode) error {
	g, err := enter("mkdirall", p, "")
	if err != nil {
		return err
	}
	n, _, _, errno := g.f.lookup(p)
	if errno == syscall.ENOTDIR || (n != nil && !n.dir) {
		err = pathErr("mkdir", p, syscall.ENOTDIR)
		g.leave(0, err)
		return err
	}
	g.f.MkdirAllQuiet(p)
	g.leave(0, nil)
	return nil
}

func ReadDir(name string) ([]DirEntry, error) {
	g, err := enter("readdir", name, "")
	if err != nil {
		return nil, err
	}
	n, _, _, errno := g.f.lookup(name)
	if errno == 0 && n == nil {
		errno = syscall.ENOENT
	}
	if errno == 0 && !n.dir {
		errno = syscall.ENOTDIR
	}
	if errno != 0 {
		err = pathErr("readdir", name, errno)
		g.leave(0, err)
		return nil, err
	}
	out := listDir(n)
	g.leave(len(out), nil)
	return out, nil
}

func ReadFile(name string) ([]byte, error) {
	f, err := Open(name)
	if err != nil {
		return nil, err
	}
	defer f.Close()
	var out []byte
	buf := make([]byte, 32*1024)
	for {
		n, err := f.Read(buf)
		out = append(out, buf[:n]...)
		if err == io.EOF {
			return out, nil
		}
		if err != nil {
			return out, err
		}
	}
}

func WriteFile(name string, data []byte, perm FileMode) error {
	f, err := OpenFile(name, O_WRONLY|O_CREATE|O_TRUNC, perm)
	if err != nil {
		return err
	}
	_, err = f.Write(data)
	if err1 := f.Close(); err1 != nil && err == nil {
		err = err1
	}
	return err
}

func Truncate(name string, size int64) error {
	g, err := enter("truncate", name, "")
	if err != nil {
		return err
	}
	n, _, _, errno := g.f.lookup(name)
	if errno == 0 && n == nil {
		errno = syscall.ENOENT
	}
	if errno == 0 && n.dir {
		errno = syscall.EISDIR
	}
	if errno != 0 {
		err = pathErr("truncate", name, errno)
		g.leave(0, err)
		return err
	}
	truncateInode(n, size)
	g.leave(0, nil)
	return nil
}

func Chmod(name string, mode FileMode) error {
	g, err := enter("chmod", name, "")
	if err != nil {
		return err
	}
	n, _, _, errno := g.f.lookup(name)
	if errno == 0 && n == nil {
		errno = syscall.ENOENT
	}
	if errno != 0 {
		err = pathErr("chmod", name, errno)
		g.leave(0, err)
		return err
	}
	n.mode = n.mode&^fs.ModePerm | mode&fs.ModePerm
	g.leave(0, nil)
	return nil
}

// CreateTemp creates dir/<pattern with * replaced by a counter>; names are
// deterministic (a counter, not randomness).
func CreateTemp(dir, pattern string) (*File, error) {
	if dir == "" {
		dir = TempDir()
	}
	f := cur
	if f == nil {
		return nil, errors.New("simos: no simulated file system installed")
	}
	for i := 0; i < 10000; i++ {
		f.tmpCount++
		name := pattern + fmt.Sprintf("%06d", f.tmpCount)
		for j := len(pattern) - 1; j >= 0; j-- {
			if pattern[j] == '*' {
				name = pattern[:j] + fmt.Sprintf("%06d", f.tmpCount) + pattern[j+1:]
				break
			}
		}
		fl, err := OpenFile(path.Join(dir, name), O_RDWR|O_CREATE|O_EXCL, 0o600)
		if IsExist(err) {
			continue
		}
		return fl, err
	}
	return nil, pathErr("createtemp", dir, syscall.EEXIST)
}

func MkdirTemp(dir, pattern string) (string, error) {
	if dir == "" {
		dir = TempDir()
	}
	f := cur
	if f == nil {
		return "", errors.New("simos: no simulated file system installed")
	}
	f.tmpCount++
	name := path.Join(dir, pattern+fmt.Sprintf("%06d", f.tmpCount))
	return name, Mkdir(name, 0o700)
}
