// Package simioutil mirrors io/ioutil on the simulated file system.
package simioutil

import (
	"io"
	"io/fs"

	"verifsim/simos"
)

var Discard = io.Discard

func ReadAll(r io.Reader) ([]byte, error)  { return io.ReadAll(r) }
func NopCloser(r io.Reader) io.ReadCloser  { return io.NopCloser(r) }
func ReadFile(name string) ([]byte, error) { return simos.ReadFile(name) }
func WriteFile(name string, data []byte, perm fs.FileMode) error {
	return simos.WriteFile(name, data, perm)
}
func TempFile(dir, pattern string) (*simos.File, error) { return simos.CreateTemp(dir, pattern) }
func TempDir(dir, pattern string) (string, error)       { return simos.MkdirTemp(dir, pattern) }
func ReadDir(dirname string) ([]fs.FileInfo, error) {
	es, err := simos.ReadDir(dirname)
	if err != nil {
		return nil, err
	}
	out := make([]fs.FileInfo, 0, len(es))
	for _, e := range es {
		fi, _ := e.Info()
		out = append(out, fi)
	}
	return out, nil
}
