// Package simfilepath stands in for path/filepath in the instrumented copy of
// the code under test: everything is passed through, except the functions that
// consult the process (the working directory), which ask the simulated file
// system instead.
package simfilepath

import (
	"io/fs"
	"path/filepath"

	"verifsim/simos"
)

const (
	Separator     = filepath.Separator
	ListSeparator = filepath.ListSeparator
)

var (
	ErrBadPattern = filepath.ErrBadPattern
	SkipDir       = filepath.SkipDir
)

type WalkFunc = filepath.WalkFunc

// Abs resolves a relative path against the SIMULATED working directory.
func Abs(p string) (string, error) {
	if filepath.IsAbs(p) {
		return filepath.Clean(p), nil
	}
	wd, err := simos.Getwd()
	if err != nil {
		return "", err
	}
	return filepath.Join(wd, p), nil
}

func Base(p string) string                          { return filepath.Base(p) }
func Clean(p string) string                         { return filepath.Clean(p) }
func Dir(p string) string                           { return filepath.Dir(p) }
func Ext(p string) string                           { return filepath.Ext(p) }
func FromSlash(p string) string                     { return filepath.FromSlash(p) }
func ToSlash(p string) string                       { return filepath.ToSlash(p) }
func IsAbs(p string) bool                           { return filepath.IsAbs(p) }
func Join(elem ...string) string                    { return filepath.Join(elem...) }
func Match(pattern, name string) (bool, error)      { return filepath.Match(pattern, name) }
func Rel(basepath, targpath string) (string, error) { return filepath.Rel(basepath, targpath) }
func Split(p string) (string, string)               { return filepath.Split(p) }
func SplitList(p string) []string                   { return filepath.SplitList(p) }
func VolumeName(p string) string                    { return filepath.VolumeName(p) }

// Walk, WalkDir, Glob and EvalSymlinks would have to run on the simulated file
// system; the code under test does not use them, and a use must not silently
// reach the real disk.
func Walk(root string, fn WalkFunc) error {
	panic("simfilepath: Walk is not simulated")
}
func WalkDir(root string, fn fs.WalkDirFunc) error {
	panic("simfilepath: WalkDir is not simulated")
}
func Glob(pattern string) ([]string, error) {
	panic("simfilepath: Glob is not simulated")
}
func EvalSymlinks(p string) (string, error) {
	panic("simfilepath: EvalSymlinks is not simulated")
}
