// Package simos is the simulated file system that replaces package os inside
// the instrumented scratch copy of the library (the import "os" is re-pointed
// here by vinstr).  It is an in-memory POSIX-like tree.  Every call is
//
//   - a yield point: other simulated tasks (queue watcher, second uploader)
//     may run before it;
//   - a fault point: the run's fault plan may make it fail with an errno, or
//     make a write short;
//   - a crash point: the plan may kill the calling task here ("kill -9":
//     completed calls persist, nothing else happens, deferred closes of the
//     dead task are refused without effect).
//
// Nothing in this package ever touches the real file system.
package simos

import (
	"fmt"
	"io"
	"io/fs"
	"path"
	"sort"
	"strings"
	"syscall"
	"time"

	"verifsim/rt"
)

// Op is one recorded file-system call.
type Op struct {
	Seq   int
	Task  string
	Op    string
	Path  string
	Path2 string
	N     int
	Err   string
	Fault string
	Idx   int // index among the subject task's calls (1-based), 0 for others
}

type inode struct {
	id    int
	dir   bool
	data  []byte
	kids  map[string]*inode
	mode  fs.FileMode
	dev   int
	nlink int
}

// Fault is one planned fault.
type Fault struct {
	Kind  string        // "err", "short", "crash", "crash-after"
	Errno syscall.Errno // for "err" and "short"
}

// FS is one simulated file system.
type FS struct {
	run     *rt.Run
	root    *inode
	nextID  int
	mounts  []mount
	History []Op
	seq     int

	// fault plan: applies to calls made by the task named Subject
	// MaxOpen: size of the simulated descriptor table (0 = unlimited).  An open
	// beyond it fails with EMFILE; nothing but Close gives a descriptor back
	// (the schedule in which no finalizer comes to the rescue).
	MaxOpen   int
	OpenCount int
	Subject   string
	Plan      map[int]Fault
	SubjCalls int
	crashed   map[string]bool
	tmpCount  int
	cwd       string // simulated working directory ("" = "/")
	Quiet     bool   // do not emit trace events (used while building the initial tree)
	// NoYield: calls neither count as steps nor yield to the scheduler.  For
	// code under test that reads the file from a goroutine of its own (the lzma
	// decoder): such calls do not come from a simulated task.
	NoYield bool

	// AfterOp, when set, runs after every recorded call (the harness checks
	// its invariants at every instant of the file-system history here).
	AfterOp func(op *Op)
}

type mount struct {
	prefix string
	dev    int
}

var cur *FS

// Install makes f the file system seen by the library. Install(nil) removes it.
func Install(f *FS) { cur = f }

// Current returns the installed file system.
func Current() *FS { return cur }

func New(r *rt.Run) *FS {
	f := &FS{run: r, Plan: map[int]Fault{}, crashed: map[string]bool{}}
	f.root = f.newInode(true, 0)
	f.root.mode = fs.ModeDir | 0o755
	return f
}

func (f *FS) newInode(dir bool, dev int) *inode {
	f.nextID++
	n := &inode{id: f.nextID, dir: dir, dev: dev, nlink: 1, mode: 0o644}
	if dir {
		n.kids = map[string]*inode{}
		n.mode = fs.ModeDir | 0o755
	}
	return n
}

// Mount declares that everything under prefix lives on device dev (rename
// across devices fails with EXDEV).
func (f *FS) Mount(prefix string, dev int) {
	f.mounts = append(f.mounts, mount{path.Clean(prefix), dev})
}

func (f *FS) devOf(p string) int {
	best, dev := -1, 0
	for _, m := range f.mounts {
		if (p == m.prefix || strings.HasPrefix(p, m.prefix+"/")) && len(m.prefix) > best {
			best, dev = len(m.prefix), m.dev
		}
	}
	return dev
}

func clean(p string) string {
	if p == "" {
		return ""
	}
	if !strings.HasPrefix(p, "/") {
		// relative to the simulated working directory ("/" unless the run moved it)
		wd := "/"
		if cur != nil && cur.cwd != "" {
			wd = cur.cwd
		}
		p = wd + "/" + p
	}
	return path.Clean(p)
}

// Chdir moves the simulated process's working directory (harness side: the
// process the library runs in changes directory between two calls).
func (f *FS) Chdir(dir string) { f.cwd = path.Clean(dir) }

// lookup walks to p. It returns the inode (nil if missing), its parent (nil if
// the parent chain is broken) and an errno describing a broken chain.
func (f *FS) lookup(p string) (n, parent *inode, name string, errno syscall.Errno) {
	p = clean(p)
	if p == "" {
		return nil, nil, "", syscall.ENOENT
	}
	if p == "/" {
		return f.root, nil, "/", 0
	}
	parts := strings.Split(strings.TrimPrefix(p, "/"), "/")
	curN := f.root
	for i, part := range parts {
		if !curN.dir {
			return nil, nil, "", syscall.ENOTDIR
		}
		kid := curN.kids[part]
		if i == len(parts)-1 {
			return kid, curN, part, 0
		}
		if kid == nil {
			return nil, nil, "", syscall.ENOENT
		}
		curN = kid
	}
	return nil, nil, "", syscall.ENOENT
}

// ---------------------------------------------------------------------------
// harness-side helpers (not recorded, no faults)

// MkdirAllQuiet creates directories while building the initial tree.
func (f *FS) MkdirAllQuiet(p string) {
	p = clean(p)
	if p == "/" {
		return
	}
	curN := f.root
	sofar := ""
	for _, part := range strings.Split(strings.TrimPrefix(p, "/"), "/") {
		sofar += "/" + part
		kid := curN.kids[part]
		if kid == nil {
			kid = f.newInode(true, f.devOf(sofar))
			curN.kids[part] = kid
		}
		curN = kid
	}
}

// PutQuiet stores a file while building the initial tree.
func (f *FS) PutQuiet(p string, data []byte) {
	p = clean(p)
	f.MkdirAllQuiet(path.Dir(p))
	_, parent, name, _ := f.lookup(p)
	n := f.newInode(false, f.devOf(p))
	n.data = append([]byte(nil), data...)
	parent.kids[name] = n
}

// LinkQuiet makes newp a hard link to the file at oldp while building the initial tree.
func (f *FS) LinkQuiet(oldp, newp string) {
	n, _, _, errno := f.lookup(oldp)
	if errno != 0 || n == nil || n.dir {
		return
	}
	newp = clean(newp)
	f.MkdirAllQuiet(path.Dir(newp))
	_, parent, name, _ := f.lookup(newp)
	parent.kids[name] = n
	n.nlink++
}

// Peek returns the content of a file without recording anything.
func (f *FS) Peek(p string) (data []byte, isDir, ok bool) {
	n, _, _, errno := f.lookup(p)
	if errno != 0 || n == nil {
		return nil, false, false
	}
	return n.data, n.dir, true
}

// List returns the sorted names in a directory without recording anything.
func (f *FS) List(p string) []string {
	n, _, _, errno := f.lookup(p)
	if errno != 0 || n == nil || !n.dir {
		return nil
	}
	names := make([]string, 0, len(n.kids))
	for k := range n.kids {
		names = append(names, k)
	}
	sort.Strings(names)
	return names
}

// Snapshot renders the whole tree as sorted "path size hash-ish" lines.
func (f *FS) Snapshot() map[string]string {
	out := map[string]string{}
	var walk func(p string, n *inode)
	walk = func(p string, n *inode) {
		if n.dir {
			if p != "/" {
				out[p] = "dir"
			}
			names := make([]string, 0, len(n.kids))
			for k := range n.kids {
				names = append(names, k)
			}
			sort.Strings(names)
			for _, k := range names {
				walk(path.Join(p, k), n.kids[k])
			}
			return
		}
		out[p] = string(n.data)
	}
	walk("/", f.root)
	return out
}

// Crashed reports whether the named task was killed at a crash point.
func (f *FS) Crashed(task string) bool { return f.crashed[task] }

// ---------------------------------------------------------------------------
// the call gate: yield, fault plan, crash, history

type gate struct {
	f       *FS
	op      Op
	refused bool
	fault   *Fault
}

func taskName(r *rt.Run) string {
	if r != nil && r.Cur() != nil {
		return r.Cur().Name
	}
	return "-"
}

// enter is called at the start of every simulated os call.
func enter(op, p, p2 string) (*gate, error) {
	f := cur
	if f == nil {
		return nil, &fs.PathError{Op: op, Path: p, Err: fmt.Errorf("simos: no simulated file system installed")}
	}
	r := f.run
	tn := taskName(r)
	g := &gate{f: f, op: Op{Task: tn, Op: op, Path: clean(p), Path2: clean(p2)}}
	if f.crashed[tn] {
		// the process is dead: nothing it "does" while unwinding has any effect
		g.refused = true
		return g, &fs.PathError{Op: op, Path: p, Err: syscall.EIO}
	}
	if r != nil && !f.NoYield {
		r.Tick()
		r.Yield("fs")
	}
	if tn == f.Subject && f.Subject != "" {
		f.SubjCalls++
		g.op.Idx = f.SubjCalls
		if fl, ok := f.Plan[f.SubjCalls]; ok {
			g.fault = &fl
			g.op.Fault = fl.Kind
			switch fl.Kind {
			case "crash":
				f.crashed[tn] = true
				g.op.Err = "CRASH"
				g.record()
				if r != nil {
					r.Fault("fs.crash-before")
				}
				panic(rt.CrashNow{At: fmt.Sprintf("%s %s (call %d)", op, p, f.SubjCalls)})
			case "err":
				g.op.Err = fl.Errno.Error()
				g.record()
				if r != nil {
					r.Fault("fs.err." + errnoName(fl.Errno))
				}
				if p2 != "" {
					return g, &LinkError{Op: op, Old: p, New: p2, Err: fl.Errno}
				}
				return g, &fs.PathError{Op: op, Path: p, Err: fl.Errno}
			}
		}
	}
	return g, nil
}

// leave records the completed call; a "crash-after" fault fires here.
func (g *gate) leave(n int, err error) {
	g.op.N = n
	if err != nil {
		g.op.Err = err.Error()
	}
	g.record()
	if g.fault != nil && g.fault.Kind == "crash-after" {
		g.f.crashed[g.op.Task] = true
		if g.f.run != nil {
			g.f.run.Fault("fs.crash-after")
		}
		panic(rt.CrashNow{At: fmt.Sprintf("after %s %s (call %d)", g.op.Op, g.op.Path, g.op.Idx)})
	}
}

func (g *gate) record() {
	f := g.f
	f.seq++
	g.op.Seq = f.seq
	f.History = append(f.History, g.op)
	if f.run != nil && !f.Quiet {
		out := "ok"
		if g.op.Err != "" {
			out = "err"
		}
		if g.op.Fault != "" {
			out = "fault:" + g.op.Fault
		}
		f.run.Event("fs."+g.op.Op, out, fmt.Sprintf("%s %s n=%d %s", g.op.Path, g.op.Path2, g.op.N, g.op.Err))
	}
	if f.AfterOp != nil {
		f.AfterOp(&f.History[len(f.History)-1])
	}
}

func errnoName(e syscall.Errno) string {
	switch e {
	case syscall.EIO:
		return "EIO"
	case syscall.ENOSPC:
		return "ENOSPC"
	case syscall.EACCES:
		return "EACCES"
	case syscall.ENOENT:
		return "ENOENT"
	case syscall.EXDEV:
		return "EXDEV"
	case syscall.EMFILE:
		return "EMFILE"
	case syscall.EEXIST:
		return "EEXIST"
	case syscall.ENOTEMPTY:
		return "ENOTEMPTY"
	case syscall.EINTR:
		return "EINTR"
	}
	return fmt.Sprintf("E%d", int(e))
}

func pathErr(op, p string, e syscall.Errno) error {
	return &fs.PathError{Op: op, Path: p, Err: e}
}

// ---------------------------------------------------------------------------
// FileInfo

type fileInfo struct {
	name string
	size int64
	mode fs.FileMode
	id   int
}

func (i fileInfo) Name() string       { return i.name }
func (i fileInfo) Size() int64        { return i.size }
func (i fileInfo) Mode() fs.FileMode  { return i.mode }
func (i fileInfo) ModTime() time.Time { return time.Time{} }
func (i fileInfo) IsDir() bool        { return i.mode.IsDir() }
func (i fileInfo) Sys() interface{}   { return nil }

func infoOf(name string, n *inode) fileInfo {
	return fileInfo{name: name, size: int64(len(n.data)), mode: n.mode, id: n.id}
}

type dirEntry struct{ fi fileInfo }

func (d dirEntry) Name() string               { return d.fi.name }
func (d dirEntry) IsDir() bool                { return d.fi.IsDir() }
func (d dirEntry) Type() fs.FileMode          { return d.fi.mode.Type() }
func (d dirEntry) Info() (fs.FileInfo, error) { return d.fi, nil }

var _ = io.EOF
