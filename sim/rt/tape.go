// Package rt is the kernel of the deterministic simulator: the choice tape
// (the only source of randomness in a run), the task scheduler, the trace,
// and the counters for faults, probes and logical steps.
//
// A run is a pure function (code, tape) -> (trace, verdict).  Nothing in this
// package reads a clock, the environment or the Go runtime's own randomness.
package rt

// ---------------------------------------------------------------------------
// PRNG: own xoshiro256** + splitmix64 so that no Go upgrade can change the
// sequences behind a seed.

type xoshiro struct{ s [4]uint64 }

func SplitMix64(x uint64) uint64 {
	x += 0x9e3779b97f4a7c15
	z := x
	z = (z ^ (z >> 30)) * 0xbf58476d1ce4e5b9
	z = (z ^ (z >> 27)) * 0x94d049bb133111eb
	return z ^ (z >> 31)
}

func newXoshiro(seed uint64) *xoshiro {
	x := &xoshiro{}
	s := seed
	for i := 0; i < 4; i++ {
		s = SplitMix64(s)
		x.s[i] = s
	}
	if x.s[0]|x.s[1]|x.s[2]|x.s[3] == 0 {
		x.s[0] = 1
	}
	return x
}

func rotl(x uint64, k uint) uint64 { return (x << k) | (x >> (64 - k)) }

func (x *xoshiro) next() uint64 {
	r := rotl(x.s[1]*5, 7) * 9
	t := x.s[1] << 17
	x.s[2] ^= x.s[0]
	x.s[3] ^= x.s[1]
	x.s[1] ^= x.s[2]
	x.s[0] ^= x.s[3]
	x.s[2] ^= t
	x.s[3] = rotl(x.s[3], 45)
	return r
}

// HashString is FNV-1a 64; used to derive per-property seeds.
func HashString(s string) uint64 {
	h := uint64(0xcbf29ce484222325)
	for i := 0; i < len(s); i++ {
		h ^= uint64(s[i])
		h *= 0x100000001b3
	}
	return h
}

// ---------------------------------------------------------------------------
// The choice tape.

// Tape produces every choice of a run.  In generate mode values come from the
// PRNG and are recorded; in replay mode they come from the supplied tape
// (clamped to the requested range; an exhausted tape yields 0, which every
// generator maps to its simplest alternative).
type Tape struct {
	rng        *xoshiro
	Rec        []uint32
	replay     []uint32
	pos        int
	Replay     bool
	Override   map[string]int // label -> forced value (recorded like any other)
	Labels     []string       // parallel to Rec when KeepLabels
	KeepLabels bool
}

func NewTape(seed uint64) *Tape { return &Tape{rng: newXoshiro(seed)} }

func NewReplayTape(vals []uint32) *Tape {
	return &Tape{replay: vals, Replay: true}
}

// Draw returns a value in [0,n).  n<=1 draws nothing.
func (t *Tape) Draw(n int, label string) int {
	if n <= 1 {
		return 0
	}
	var v uint32
	if t.Replay {
		if t.pos < len(t.replay) {
			v = t.replay[t.pos]
		}
		t.pos++
		if int64(v) >= int64(n) {
			v = uint32(int64(v) % int64(n))
		}
	} else if ov, ok := t.Override[label]; ok {
		if ov < 0 {
			ov = 0
		}
		v = uint32(ov % n)
	} else {
		v = uint32(t.rng.next() % uint64(n))
	}
	t.Rec = append(t.Rec, v)
	if t.KeepLabels {
		t.Labels = append(t.Labels, label)
	}
	return int(v)
}

// Bool is true with probability num/den; 0 (the simplest choice) is false.
func (t *Tape) Bool(num, den int, label string) bool {
	return t.Draw(den, label) >= den-num
}

// Range draws in [lo,hi] inclusive; the simplest choice is lo.
func (t *Tape) Range(lo, hi int, label string) int {
	if hi <= lo {
		return lo
	}
	return lo + t.Draw(hi-lo+1, label)
}

// Weighted picks index i with probability w[i]/sum(w); put the simplest
// alternative first.
func (t *Tape) Weighted(w []int, label string) int {
	sum := 0
	for _, x := range w {
		sum += x
	}
	v := t.Draw(sum, label)
	for i, x := range w {
		if v < x {
			return i
		}
		v -= x
	}
	return len(w) - 1
}

// Sub returns a generator for bulk data, seeded by ONE tape entry, so that
// 200 KiB of file content costs one choice on the tape.
func (t *Tape) Sub(label string) *Sub {
	v := t.Draw(1<<31-1, label)
	return &Sub{x: newXoshiro(uint64(v)*0x9e3779b97f4a7c15 + 12345)}
}

// Sub is a derived bulk generator (not recorded; a pure function of one tape entry).
type Sub struct{ x *xoshiro }

func (s *Sub) Intn(n int) int {
	if n <= 1 {
		return 0
	}
	return int(s.x.next() % uint64(n))
}

func (s *Sub) Bytes(n int) []byte {
	b := make([]byte, n)
	for i := 0; i < n; i += 8 {
		v := s.x.next()
		for j := 0; j < 8 && i+j < n; j++ {
			b[i+j] = byte(v >> (8 * uint(j)))
		}
	}
	return b
}

// Perm draws a permutation of n elements (Fisher-Yates from the tape); the
// all-zero tape yields the identity.
func (t *Tape) Perm(n int, label string) []int {
	p := make([]int, n)
	for i := range p {
		p[i] = i
	}
	for i := 0; i < n-1; i++ {
		j := i + t.Draw(n-i, label)
		p[i], p[j] = p[j], p[i]
	}
	return p
}
