package rt

import (
	"crypto/sha256"
	"encoding/hex"
	"fmt"
	"hash"
	"reflect"
	"runtime"
	"sort"
	"strconv"
	"sync"
	"sync/atomic"
	"time"
)

// Violation is one oracle failure.  Class is a stable string that names WHAT
// was violated (never derived from the input); Key discriminates the call
// site / fault kind / input shape for the known-findings file.
type Violation struct {
	Class string `json:"class"`
	Key   string `json:"key"`
	Msg   string `json:"msg"`
}

// Run is the state of one simulated execution.
type Run struct {
	T *Tape

	// logical time
	Steps      int64
	StepBudget int64 // 0 = unlimited
	pools      map[*sync.Pool][]interface{}

	// trace
	traceH    hash.Hash
	shapeH    hash.Hash
	seq       uint64
	Events    []string // recorded when Record is set (capped)
	Record    bool
	MaxEvents int

	Faults map[string]int
	Probes map[string]int
	Stats  map[string]int64

	Violations []Violation

	SweepLen   int // reported by the property: number of fault positions of this workload
	NonTrivial bool

	// scheduler
	tasks         []*Task
	cur           *Task
	back          chan struct{}
	aborted       bool
	lastRan       *Task
	Sticky        int // extra weight for "keep running the same task"
	yieldSites    map[int]bool
	YieldAllSites bool

	mapOrderActive bool
}

// cur run, seen by the instrumented library (Step, MapKeys) and the os shim.
var current *Run

// Current returns the active run or nil.
func Current() *Run { return current }

func NewRun(t *Tape) *Run {
	r := &Run{
		T:         t,
		traceH:    sha256.New(),
		shapeH:    sha256.New(),
		Faults:    map[string]int{},
		Probes:    map[string]int{},
		Stats:     map[string]int64{},
		back:      make(chan struct{}),
		MaxEvents: 400,
	}
	return r
}

// Activate makes r the run seen by library-side hooks. Deactivate with nil.
func Activate(r *Run) { current = r }

func (r *Run) EnableMapOrder(on bool) { r.mapOrderActive = on }

// ---------------------------------------------------------------------------
// trace

// Event appends one event to the trace.  kind/outcome form the "shape"
// (data elided); detail carries data and only enters the full trace hash.
func (r *Run) Event(kind, outcome, detail string) {
	r.seq++
	tn := "-"
	if r.cur != nil {
		tn = r.cur.Name
	}
	line := strconv.FormatUint(r.seq, 10) + " " + tn + " " + kind + " " + outcome + " " + detail + "\n"
	r.traceH.Write([]byte(line))
	r.shapeH.Write([]byte(tn + " " + kind + " " + outcome + "\n"))
	if r.Record && len(r.Events) < r.MaxEvents {
		if len(line) > 300 {
			line = line[:300] + "…\n"
		}
		r.Events = append(r.Events, line[:len(line)-1])
	}
}

func (r *Run) Seq() uint64 { return r.seq }

func (r *Run) TraceHash() string { return hex.EncodeToString(r.traceH.Sum(nil)[:12]) }
func (r *Run) ShapeHash() string { return hex.EncodeToString(r.shapeH.Sum(nil)[:12]) }

func (r *Run) Fault(kind string) { r.Faults[kind]++; r.NonTrivial = true }
func (r *Run) Probe(name string) { r.Probes[name]++ }

// Violate records an oracle failure; the run continues so that one known
// defect does not hide another violation in the same run.
func (r *Run) Violate(class, key, format string, args ...interface{}) {
	msg := fmt.Sprintf(format, args...)
	if len(msg) > 1500 {
		msg = msg[:1500] + "…"
	}
	for _, v := range r.Violations {
		if v.Class == class && v.Key == key {
			return
		}
	}
	if len(r.Violations) < 16 {
		r.Violations = append(r.Violations, Violation{class, key, msg})
	}
	r.Event("violation", class, key)
}

// ---------------------------------------------------------------------------
// steps (logical time) and budget

// BudgetExceeded is the panic value used to unwind a task that ran out of
// logical steps (deterministic hang detection).
type BudgetExceeded struct{ Steps int64 }

// CrashNow is the panic value used to kill a task at a crash point.
type CrashNow struct{ At string }

type abortTask struct{}

// Tick advances logical time by one step and enforces the budget.
func (r *Run) Tick() {
	r.Steps++
	if r.cur != nil {
		r.cur.Steps++
	}
	if r.StepBudget > 0 && r.Steps > r.StepBudget {
		panic(BudgetExceeded{r.Steps})
	}
}

// Step is called by the instrumented library at every function entry and loop
// head.  With no active run it does nothing.
func Step(site int) {
	r := current
	if r == nil {
		return
	}
	r.Tick()
	if r.cur != nil && (r.YieldAllSites || r.yieldSites[site]) {
		r.Yield("step")
	}
}

// SetYieldSites selects the buggified loop heads / function entries that
// yield to the scheduler in this run.
func (r *Run) SetYieldSites(sites map[int]bool) { r.yieldSites = sites }

// ---------------------------------------------------------------------------
// tasks and the scheduler

type Task struct {
	Name       string
	ID         int
	Steps      int64
	wake       chan struct{}
	fn         func()
	done       bool
	started    bool
	Crashed    bool
	Panic      interface{} // non-sentinel panic value, if any
	PanicStack string
	Budget     bool // ran out of steps
}

// Go registers a task; it starts when the scheduler first picks it.
func (r *Run) Go(name string, fn func()) *Task {
	t := &Task{Name: name, ID: len(r.tasks), wake: make(chan struct{}), fn: fn}
	r.tasks = append(r.tasks, t)
	return t
}

// Cur returns the running task (nil outside the scheduler).
func (r *Run) Cur() *Task { return r.cur }

func (r *Run) runTask(t *Task) {
	defer func() {
		if p := recover(); p != nil {
			switch v := p.(type) {
			case BudgetExceeded:
				t.Budget = true
			case CrashNow:
				t.Crashed = true
			case abortTask:
			default:
				t.Panic = v
				t.PanicStack = shortStack()
			}
		}
		t.done = true
		r.back <- struct{}{}
	}()
	<-t.wake
	if r.aborted {
		panic(abortTask{})
	}
	t.fn()
}

// Yield hands control to the scheduler (called from seams inside a task).
func (r *Run) Yield(why string) {
	t := r.cur
	if t == nil {
		return
	}
	r.back <- struct{}{}
	<-t.wake
	if r.aborted {
		panic(abortTask{})
	}
}

// Sched runs all registered tasks to completion, choosing who runs next at
// every yield from the tape.  Exactly one task runs at any instant.
func (r *Run) Sched() {
	for {
		var runnable []*Task
		for _, t := range r.tasks {
			if !t.done {
				runnable = append(runnable, t)
			}
		}
		if len(runnable) == 0 {
			break
		}
		var pick *Task
		if len(runnable) == 1 {
			pick = runnable[0]
		} else {
			// order: the task that ran last comes first, so that the choice 0
			// (and the Sticky extra weight) means "no context switch".
			if r.lastRan != nil {
				for i, t := range runnable {
					if t == r.lastRan {
						copy(runnable[1:i+1], runnable[:i])
						runnable[0] = t
						break
					}
				}
			}
			k := r.T.Draw(len(runnable)+r.Sticky, "sched")
			if k >= len(runnable) {
				k = 0
			}
			pick = runnable[k]
			if r.lastRan != nil && pick != r.lastRan {
				r.Stats["ctx_switches"]++
				r.NonTrivial = true
			}
		}
		r.lastRan = pick
		r.cur = pick
		if !pick.started {
			pick.started = true
			go r.runTask(pick)
		}
		atomic.AddInt64(&schedProgress, 1)
		atomic.StoreInt32(&schedWaiting, 1)
		pick.wake <- struct{}{}
		<-r.back
		atomic.StoreInt32(&schedWaiting, 0)
		r.cur = nil
		if atomic.LoadInt32(&schedStuck) != 0 {
			// The task neither yielded nor finished for seconds of real time: it
			// waits for something only a PARKED task can give it (a real lock held
			// across a yield point, a channel).  A cooperative scheduler cannot run
			// such code; the run is abandoned (not judged), the goroutines are left
			// behind, and the caller must not start another run in this process.
			atomic.StoreInt32(&schedStuck, 0)
			r.aborted = true
			r.tasks = nil
			r.lastRan = nil
			panic(RunAbandoned{Task: pick.Name})
		}
	}
	r.tasks = nil
	r.lastRan = nil
}

// RunAbandoned is the panic value with which Sched gives up a run whose
// picked task blocked outside the simulator's control.
type RunAbandoned struct{ Task string }

var (
	schedProgress int64
	schedWaiting  int32
	schedStuck    int32
	watchdogOnce  sync.Once
)

// StartWatchdog starts (once per process) a goroutine that notices when the
// scheduler has been waiting for one task for longer than limit without any
// progress, and makes Sched abandon the run.  Its pending timer also keeps the
// Go runtime from ending the process with "all goroutines are asleep".
func StartWatchdog(limit time.Duration) {
	watchdogOnce.Do(func() {
		go func() {
			last := int64(-1)
			var since time.Time
			for {
				time.Sleep(250 * time.Millisecond)
				p := atomic.LoadInt64(&schedProgress)
				if atomic.LoadInt32(&schedWaiting) == 0 || p != last {
					last, since = p, time.Now()
					continue
				}
				if time.Since(since) < limit {
					continue
				}
				r := current
				if r == nil {
					continue
				}
				atomic.StoreInt32(&schedStuck, 1)
				select {
				case r.back <- struct{}{}:
				default:
					atomic.StoreInt32(&schedStuck, 0)
				}
				last, since = -1, time.Now()
			}
		}()
	})
}

// Abort makes every parked task unwind the next time it is resumed; Sched
// then drains them.  Used when a run must stop early.
func (r *Run) Abort() { r.aborted = true }

// Solo runs fn as a single task (so that seams see a task context, panics
// are trapped and budgets are enforced) and returns the task.
func (r *Run) Solo(name string, fn func()) *Task {
	t := r.Go(name, fn)
	r.Sched()
	return t
}

// ---------------------------------------------------------------------------
// map-order seam

// MapKeys returns the keys of m in an order chosen by the tape (a recorded
// choice).  With no active run, or with the seam disabled, keys come sorted by
// a pointer-free rendering, i.e. deterministically.
func MapKeys[K comparable, V any](m map[K]V) []K {
	keys := make([]K, 0, len(m))
	for k := range m {
		keys = append(keys, k)
	}
	rend := make(map[K]string, len(keys))
	for _, k := range keys {
		rend[k] = render(reflect.ValueOf(k), 0)
	}
	sort.SliceStable(keys, func(i, j int) bool { return rend[keys[i]] < rend[keys[j]] })
	r := current
	if r == nil || !r.mapOrderActive || len(keys) < 2 {
		return keys
	}
	p := r.T.Perm(len(keys), "maporder")
	out := make([]K, len(keys))
	ident := true
	for i, j := range p {
		out[i] = keys[j]
		if i != j {
			ident = false
		}
	}
	if !ident {
		r.Stats["maporder_nonidentity"]++
	}
	r.Stats["maporder_draws"]++
	return out
}

func render(v reflect.Value, depth int) string {
	if depth > 4 || !v.IsValid() {
		return "?"
	}
	switch v.Kind() {
	case reflect.String:
		return strconv.Quote(v.String())
	case reflect.Int, reflect.Int8, reflect.Int16, reflect.Int32, reflect.Int64:
		return fmt.Sprintf("%020d", v.Int())
	case reflect.Uint, reflect.Uint8, reflect.Uint16, reflect.Uint32, reflect.Uint64:
		return fmt.Sprintf("%020d", v.Uint())
	case reflect.Bool:
		return strconv.FormatBool(v.Bool())
	case reflect.Ptr, reflect.Interface:
		if v.IsNil() {
			return "nil"
		}
		return "*" + render(v.Elem(), depth+1)
	case reflect.Struct:
		s := "{"
		for i := 0; i < v.NumField(); i++ {
			s += render(v.Field(i), depth+1) + ","
		}
		return s + "}"
	case reflect.Array:
		s := "["
		for i := 0; i < v.Len(); i++ {
			s += render(v.Index(i), depth+1) + ","
		}
		return s + "]"
	}
	return v.Kind().String()
}

// ---------------------------------------------------------------------------
// instrumentation registry (filled by the generated zz_verif_instr.go files)

type InstrInfo struct {
	Package   string
	StepSites int
	MapRanges int
	OsFiles   int
	FirstSite int
	Sites     []string
}

var instr []InstrInfo

func RegisterInstr(i InstrInfo) { instr = append(instr, i) }
func Instrumented() bool        { return len(instr) > 0 }
func Instr() []InstrInfo        { return instr }

// TotalSites returns the number of step sites over all instrumented packages.
func TotalSites() int {
	n := 0
	for _, i := range instr {
		if i.FirstSite+i.StepSites > n {
			n = i.FirstSite + i.StepSites
		}
	}
	return n
}

func shortStack() string {
	b := make([]byte, 6000)
	n := runtime.Stack(b, false)
	return string(b[:n])
}

// ---------------------------------------------------------------------------
// locks of the code under test (instrumented variant)

// Lock acquires a mutex of the code under test through its TryLock method,
// yielding to the scheduler between attempts: a task never blocks for real on
// a lock that a parked task holds.
func Lock(try func() bool) {
	r := current
	for i := 0; !try(); i++ {
		if r == nil || r.cur == nil {
			// no simulated task context (package initialisation, a finalizer):
			// nothing can be scheduled, spin politely
			runtime.Gosched()
			continue
		}
		r.Tick()
		r.Stats["lock_waits"]++
		r.Yield("lock")
	}
}

type onceState struct{ running, done bool }

var onceStates = map[*sync.Once]*onceState{}

// OnceDo stands in for (*sync.Once).Do: f runs once; a task that arrives while
// another task is inside f yields until f has returned.
func OnceDo(o *sync.Once, f func()) {
	st := onceStates[o]
	if st == nil {
		st = &onceState{}
		onceStates[o] = st
	}
	r := current
	for st.running {
		if r == nil || r.cur == nil {
			runtime.Gosched()
			continue
		}
		r.Tick()
		r.Yield("once")
	}
	if st.done {
		return
	}
	st.running = true
	defer func() { st.running, st.done = false, true }()
	f()
}

// ---------------------------------------------------------------------------
// sync.Pool of the code under test (instrumented variant)

// PoolGet stands in for (*sync.Pool).Get: with an active run, the pool's
// content is per run (every run starts with empty pools) and whether a
// recycled object or a new one is handed out is a recorded choice.
func PoolGet(p *sync.Pool) interface{} {
	r := current
	if r == nil {
		return p.Get()
	}
	if r.pools == nil {
		r.pools = map[*sync.Pool][]interface{}{}
	}
	st := r.pools[p]
	if len(st) > 0 && r.T.Bool(3, 4, "pool.recycle") {
		v := st[len(st)-1]
		r.pools[p] = st[:len(st)-1]
		r.Stats["pool.recycled"]++
		return v
	}
	if p.New != nil {
		return p.New()
	}
	return nil
}

// PoolPut stands in for (*sync.Pool).Put.
func PoolPut(p *sync.Pool, v interface{}) {
	r := current
	if r == nil {
		p.Put(v)
		return
	}
	if r.pools == nil {
		r.pools = map[*sync.Pool][]interface{}{}
	}
	if len(r.pools[p]) < 64 {
		r.pools[p] = append(r.pools[p], v)
	}
}
