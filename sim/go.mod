module verifsim

go 1.19
