#!/bin/bash
# evalmut.sh <worktree> <subdir A|B|...> <prop> [name]
# 1. confirms a candidate seeded change in its scratch worktree: applies, builds, the repository's own
#    tests still pass, the demonstration fails with the change and passes without it;
# 2. applies it to /repo, runs the property's quick check (evidence/replays redirected), and undoes it;
# 3. with a 4th argument, files the change under /verif/seeded/<name>/ (patch.diff, demo, meta.json).
set -u
WT="$1"; SUB="$2"; PROP="$3"; NAME="${4:-}"
export GOFLAGS=-mod=mod GOPROXY=off GOSUMDB=off GOTOOLCHAIN=local
OUT="$WT/_out/$SUB"
[ -f "$OUT/patch.diff" ] || { echo "no patch in $OUT"; exit 2; }
demo="$(ls "$OUT"/*_test.go 2>/dev/null | head -1)"
cd "$WT" || exit 2
git checkout -q -- . ; git clean -qfd -e _out >/dev/null 2>&1
pkgdir=""
if [ -n "$demo" ]; then
  pkg="$(grep -m1 '^package ' "$demo" | awk '{print $2}' | sed 's/_test$//')"
  for d in control deb changelog dependency version hashio internal; do [ "$d" = "$pkg" ] && pkgdir="$d"; done
fi
res_base="n/a"; res_mut="n/a"; tests="?"
if [ -n "$pkgdir" ]; then
  cp "$demo" "$pkgdir/"
  go test -count=1 "./$pkgdir/" -run 'Demo|demo|Seeded|Mutant' >/tmp/mut/ev.base.log 2>&1 && res_base=pass || res_base=FAIL
fi
git apply "$OUT/patch.diff" || { echo "patch does not apply"; git checkout -q -- .; exit 2; }
go build ./... >/tmp/mut/ev.build.log 2>&1 || { echo "does not build"; cat /tmp/mut/ev.build.log; git checkout -q -- .; exit 2; }
if [ -n "$pkgdir" ]; then
  go test -count=1 "./$pkgdir/" -run 'Demo|demo|Seeded|Mutant' >/tmp/mut/ev.mut.log 2>&1 && res_mut=pass || res_mut=FAIL
  rm -f "$pkgdir/$(basename "$demo")"
fi
go test -count=1 ./... >/tmp/mut/ev.tests.log 2>&1 && tests=pass || tests=FAIL
git checkout -q -- . ; git clean -qfd -e _out >/dev/null 2>&1
echo "confirm: existing tests with change=$tests demo without change=$res_base demo with change=$res_mut"
# run the check against /repo with the change applied
cd /repo || exit 2
[ -z "$(git status --porcelain)" ] || { echo "/repo not clean"; exit 2; }
git apply "$OUT/patch.diff" || { echo "patch does not apply to /repo"; exit 2; }
EV="$(mktemp -d /dev/shm/evalmut.XXXXXX)"
( cd /verif && VERIF_EVIDENCE_DIR="$EV/ev" VERIF_REPLAY_DIR="$EV/rp" ./check "$PROP" quick >"$EV/out.log" 2>&1 ); code=$?
git -C /repo checkout -q -- .
cls="$(grep -m3 '^violated:' "$EV/out.log" | cut -c1-160)"
echo "check $PROP quick: exit $code"; echo "$cls"; grep -A2 -m1 '^violated:' "$EV/out.log" | tail -2 | cut -c1-300
if [ -n "$NAME" ]; then
  S="/verif/seeded/$NAME"; mkdir -p "$S"
  cp "$OUT/patch.diff" "$S/patch.diff"; [ -n "$demo" ] && cp "$demo" "$S/"; cp "$OUT/README.md" "$S/README.agent.md" 2>/dev/null
  python3 - "$S" "$PROP" "$tests" "$res_base" "$res_mut" "$code" "$cls" <<'PY'
import json, sys
s, prop, tests, base, mut, code, cls = sys.argv[1:8]
json.dump({"property": prop, "needs_to_manifest": "see README.agent.md", "confirmed": {"existing_tests_with_change": tests, "demo_without_change": base, "demo_with_change": mut},
           "ran": f"evalmut.sh: git apply in the scratch worktree, go build ./..., go test -count=1 ./..., demo test with and without the change; then git -C /repo apply, ./check {prop} quick, git -C /repo checkout -- .",
           "check_exit_code": int(code), "first_violations": cls.split("\n") if cls else []}, open(s + "/meta.json", "w"), indent=1)
PY
fi
rm -rf "$EV"
