#!/bin/bash
# Self-tests of the verification machinery (not property checks):
#   selftest.sh determinism [ID]  every claimed property: >=200 run indices executed in >=37 separate
#                                 processes (worker splits 1, 4, 16 and 16 again), trace hashes compared
#   selftest.sh simos             differential test of the simulated file system against the real os
#   selftest.sh mutants [ID]      every seeded change under /verif/seeded/<name>/patch.diff applied to a
#                                 SCRATCH COPY of /repo (never to /repo): the named property's quick check
#                                 must exit 1 with a VIOLATION line; the scratch copy is deleted afterwards
#   selftest.sh benign [name]    every behaviour-preserving change under /verif/benign/<name>/patch.diff applied to a
#                                 scratch copy: every quick check must stay quiet
#   selftest.sh all
# exit 0 = all fine, 1 = a self-test failed.
set -u
VERIF="$(cd "$(dirname "$0")" && pwd)"
REPO="${VERIF_REPO:-/repo}"
export GOFLAGS=-mod=mod GOPROXY=off GOSUMDB=off GOTOOLCHAIN=local
what="${1:-all}"; only="${2:-}"
base=/dev/shm; [ -d "$base" ] && [ -w "$base" ] || base="${TMPDIR:-/tmp}"
ST="$(mktemp -d "$base/verif-selftest.XXXXXX")"; trap 'rm -rf "$ST"' EXIT
rc=0
PROPS="C07 C08 C09 C10 C11 C12 C13 C14 C15 C16 C17 C18 C19 C20"
I_PROPS=" C10 C14 C15 C16 C17 C18 C19 C20 "

determinism() {
  "$VERIF/check" build N "$ST" || exit 2
  "$VERIF/check" build I "$ST" || exit 2
  for p in $PROPS; do
    [ -n "$only" ] && [ "$only" != "$p" ] && continue
    v=N; case "$I_PROPS" in *" $p "*) v=I;; esac
    n=200
    i=0
    for W in 1 4 16 16; do
      i=$((i+1))
      for w in $(seq 0 $((W-1))); do
        GOMAXPROCS=1 "$ST/vh$v" work -prop "$p" -tier quick -seed "${VERIF_SEED:-1}" -w "$w" -W "$W" -from 0 -to $n \
          -hashkeep $n -sweep 0 -known "$VERIF/known_findings.json" -out "$ST/det-$p-$i-$w.json" &
      done
      wait
    done
    python3 - "$ST" "$p" <<'PY' || rc=1
import json, glob, sys, collections
st, p = sys.argv[1], sys.argv[2]
seen = collections.defaultdict(set); procs = 0
for f in glob.glob(f"{st}/det-{p}-*.json"):
    procs += 1
    for k, v in json.load(open(f))["hashes"].items():
        seen[k].add(v)
bad = {k: v for k, v in seen.items() if len(v) != 1}
print(f"determinism {p}: {len(seen)} runs, each executed 4 times across {procs} processes: {'OK' if not bad else 'MISMATCH ' + str(list(bad.items())[:3])}")
sys.exit(1 if bad or len(seen) < 200 else 0)
PY
    rm -f "$ST"/det-$p-*.json
  done
}

simos() {
  (cd "$VERIF/sim" && TMPDIR="$base" go test -count=1 -v ./simos/ 2>&1 | grep -v '^        ' | tail -5)
  [ "${PIPESTATUS[0]}" = 0 ] || rc=1
}

mutants() {
  printf '%-34s %-5s %-8s %s\n' "seeded change" "prop" "outcome" "first violation class"
  for d in "$VERIF"/seeded/*/; do
    name="$(basename "$d")"
    [ -f "$d/patch.diff" ] || continue
    prop="$(python3 -c 'import json,sys; print(json.load(open(sys.argv[1]))["property"])' "$d/meta.json")"
    [ -n "$only" ] && [ "$only" != "$prop" ] && [ "$only" != "$name" ] && continue
    M="$ST/mrepo"; rm -rf "$M"; mkdir -p "$M"
    (cd "$REPO" && tar --exclude=.git -cf - .) | (cd "$M" && tar xf -)
    if ! (cd "$M" && git apply --unsafe-paths "$d/patch.diff" 2>"$ST/apply.err" || patch -s -p1 <"$d/patch.diff" 2>>"$ST/apply.err"); then
      printf '%-34s %-5s %-8s %s\n' "$name" "$prop" "NOAPPLY" "$(head -c 200 "$ST/apply.err")"; rc=1; continue
    fi
    out="$(VERIF_REPO="$M" VERIF_EVIDENCE_DIR="$ST/ev" VERIF_REPLAY_DIR="$ST/rp" "$VERIF/check" "$prop" quick 2>&1)"; code=$?
    cls="$(printf '%s\n' "$out" | grep -m1 '^violated:' | cut -c1-110)"
    if [ $code = 1 ] && printf '%s\n' "$out" | grep -q '^VIOLATION property='"$prop"; then
      printf '%-34s %-5s %-8s %s\n' "$name" "$prop" "CAUGHT" "$cls"
    else
      printf '%-34s %-5s %-8s %s\n' "$name" "$prop" "MISSED" "(exit $code)"; rc=1
    fi
    rm -rf "$M" "$ST/ev" "$ST/rp"
  done
}

# Behaviour-preserving changes (/verif/benign/<name>/patch.diff, applied to a scratch copy): every
# claimed property's quick check must stay quiet (exit 0, no VIOLATION line).
benign() {
  printf '%-44s %s\n' "behaviour-preserving change" "outcome per check"
  for d in "$VERIF"/benign/*/; do
    name="$(basename "$d")"
    [ -f "$d/patch.diff" ] || continue
    [ -n "$only" ] && [ "$only" != "$name" ] && continue
    M="$ST/brepo"; rm -rf "$M"; mkdir -p "$M"
    (cd "$REPO" && tar --exclude=.git -cf - .) | (cd "$M" && tar xf -)
    if ! (cd "$M" && patch -s -p1 <"$d/patch.diff" 2>"$ST/apply.err"); then
      printf '%-44s %s\n' "$name" "NOAPPLY $(head -c 200 "$ST/apply.err")"; rc=1; continue
    fi
    line=""
    for p in ${BENIGN_PROPS:-$PROPS}; do
      out="$(VERIF_REPO="$M" VERIF_EVIDENCE_DIR="$ST/ev" VERIF_REPLAY_DIR="$ST/rp/$name" "$VERIF/check" "$p" quick 2>&1)"; code=$?
      if [ $code = 0 ] && ! printf '%s\n' "$out" | grep -q '^VIOLATION'; then
        line="$line $p:quiet"
      else
        line="$line $p:ALARM($code)"; rc=1
        printf '%s\n' "$out" | grep -A3 -m2 '^violated:' | cut -c1-400 >"$ST/alarm-$name-$p.txt"
        mkdir -p "${BENIGN_LOG_DIR:-$ST}"; cp "$ST/alarm-$name-$p.txt" "${BENIGN_LOG_DIR:-$ST}/" 2>/dev/null
      fi
    done
    printf '%-44s %s\n' "$name" "$line"
    rm -rf "$M" "$ST/ev"
  done
}

case "$what" in
  benign) benign ;;
  determinism) determinism ;;
  simos) simos ;;
  mutants) mutants ;;
  all) simos; determinism; mutants ;;
  *) echo "usage: selftest.sh determinism|simos|mutants|benign|all [ID]" >&2; exit 2 ;;
esac
exit $rc
