#!/bin/bash
# runall.sh [quick|thorough] [ids...] : run the checks and print one summary line each (exit code, runs, violations, wall)
tier="${1:-quick}"; shift
ids="${*:-C07 C08 C09 C10 C11 C12 C13 C14 C15 C16 C17 C18 C19 C20}"
cd "$(dirname "$0")"
bad=0
for p in $ids; do
  out="$(./check $p $tier 2>&1)"; rc=$?
  line="$(printf '%s\n' "$out" | grep "^$p $tier:" | sed -E 's/faults=map\[[^]]*\], //' | cut -c1-150)"
  printf 'rc=%d %s\n' $rc "$line"
  if [ $rc != 0 ]; then bad=1; printf '%s\n' "$out" | grep -A3 "^violated\|TROUBLE" | head -12 | cut -c1-300; fi
  printf '%s\n' "$out" | grep "^warning" | head -3
done
exit $bad
