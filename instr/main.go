// vinstr instruments a scratch copy of the repository for simulation:
//
//  1. imports of "os" and "io/ioutil" in non-test files are re-pointed to the
//     simulated file system (verifsim/simos, verifsim/simos/simioutil);
//  2. every `range` over a map is rewritten to iterate the keys in an order
//     chosen by the run's tape (vsimrt.MapKeys);
//  3. vsimrt.Step(site) is inserted at every function entry and loop head
//     (logical time, deterministic hang detection, optional yield point).
//
// Edits are textual insertions at token offsets that never add a line, so
// line numbers in panics and stack traces still match the original source.
// Anything the tool cannot handle is a hard error (the check exits 2).
package main

import (
	"flag"
	"fmt"
	"go/ast"
	"go/importer"
	"go/parser"
	"go/token"
	"go/types"
	"os"
	"path/filepath"
	"sort"
	"strings"
)

type pendingWrite struct {
	path string
	data []byte
}

type edit struct {
	off  int
	del  int
	text string
	seq  int
}

func main() {
	dir := flag.String("dir", "", "scratch copy of the repository (modified in place)")
	sim := flag.String("sim", "", "path of the verifsim module")
	noSteps := flag.Bool("nosteps", false, "do not insert Step() calls")
	flag.Parse()
	if *dir == "" || *sim == "" {
		fail("usage: vinstr -dir <scratch repo> -sim <verifsim module dir>")
	}
	abs, err := filepath.Abs(*dir)
	if err != nil {
		fail("%v", err)
	}
	if err := os.Chdir(abs); err != nil {
		fail("%v", err)
	}
	modBytes, err := os.ReadFile("go.mod")
	if err != nil {
		fail("%v", err)
	}
	modPath := ""
	for _, l := range strings.Split(string(modBytes), "\n") {
		if strings.HasPrefix(l, "module ") {
			modPath = strings.TrimSpace(strings.TrimPrefix(l, "module "))
		}
	}
	if modPath == "" {
		fail("no module line in go.mod")
	}

	// package directories
	var pkgDirs []string
	filepath.Walk(".", func(p string, info os.FileInfo, err error) error {
		if err != nil {
			return nil
		}
		if info.IsDir() {
			base := filepath.Base(p)
			if p != "." && (strings.HasPrefix(base, ".") || base == "testdata" || base == "vendor") {
				return filepath.SkipDir
			}
			return nil
		}
		if strings.HasSuffix(p, ".go") && !strings.HasSuffix(p, "_test.go") {
			d := filepath.Dir(p)
			if len(pkgDirs) == 0 || pkgDirs[len(pkgDirs)-1] != d {
				pkgDirs = append(pkgDirs, d)
			}
		}
		return nil
	})
	sort.Strings(pkgDirs)
	pkgDirs = uniq(pkgDirs)

	fset := token.NewFileSet()
	imp := importer.ForCompiler(fset, "source", nil)
	site := 0
	var pending []pendingWrite
	for _, pd := range pkgDirs {
		names, _ := filepath.Glob(filepath.Join(pd, "*.go"))
		var files []*ast.File
		var paths []string
		for _, n := range names {
			if strings.HasSuffix(n, "_test.go") {
				continue
			}
			f, err := parser.ParseFile(fset, n, nil, parser.ParseComments)
			if err != nil {
				fail("parse %s: %v", n, err)
			}
			files = append(files, f)
			paths = append(paths, n)
		}
		if len(files) == 0 {
			continue
		}
		importPath := modPath
		if pd != "." {
			importPath = modPath + "/" + filepath.ToSlash(pd)
		}
		info := &types.Info{Types: map[ast.Expr]types.TypeAndValue{}, Selections: map[*ast.SelectorExpr]*types.Selection{}}
		conf := types.Config{Importer: imp, Error: func(err error) {}}
		_, terr := conf.Check(importPath, fset, files, info)
		hasRange := false
		for _, f := range files {
			ast.Inspect(f, func(n ast.Node) bool {
				if _, ok := n.(*ast.RangeStmt); ok {
					hasRange = true
				}
				return true
			})
		}
		if terr != nil && hasRange {
			fail("type-checking %s failed (needed to find map ranges): %v", importPath, terr)
		}
		firstSite := site
		mapRanges, osFiles := 0, 0
		lockSites := 0
		_ = lockSites
		var siteNames []string
		for i, f := range files {
			src, err := os.ReadFile(paths[i])
			if err != nil {
				fail("%v", err)
			}
			var edits []edit
			add := func(pos token.Pos, del int, text string) {
				edits = append(edits, edit{off: fset.Position(pos).Offset, del: del, text: text, seq: len(edits)})
			}
			// 1. imports
			touchedOs := false
			for _, is := range f.Imports {
				var repl string
				switch is.Path.Value {
				case `"os"`:
					repl = `"verifsim/simos"`
					if is.Name == nil {
						repl = "os " + repl
					}
				case `"io/ioutil"`:
					repl = `"verifsim/simos/simioutil"`
					if is.Name == nil {
						repl = "ioutil " + repl
					}
				case `"path/filepath"`:
					// filepath.Abs consults the process's working directory
					repl = `"verifsim/simos/simfilepath"`
					if is.Name == nil {
						repl = "filepath " + repl
					}
				}
				if repl != "" {
					add(is.Path.Pos(), len(is.Path.Value), repl)
					touchedOs = true
				}
			}
			if touchedOs {
				osFiles++
			}
			needRT := false
			// 2. map ranges (labels are not supported)
			ast.Inspect(f, func(n ast.Node) bool {
				if ls, ok := n.(*ast.LabeledStmt); ok {
					if rs, ok := ls.Stmt.(*ast.RangeStmt); ok && isMap(info, rs.X) {
						fail("%s: labelled range over a map is not supported by vinstr", fset.Position(rs.Pos()))
					}
				}
				rs, ok := n.(*ast.RangeStmt)
				if !ok || !isMap(info, rs.X) {
					return true
				}
				mapRanges++
				needRT = true
				id := fmt.Sprintf("%d", mapRanges+1000*len(siteNames)+fset.Position(rs.Pos()).Line)
				vm, vk, vv, okv := "__vm"+id, "__vk"+id, "__vv"+id, "__ok"+id
				xs := string(src[fset.Position(rs.X.Pos()).Offset:fset.Position(rs.X.End()).Offset])
				head := "{ " + vm + " := " + xs + "; for _, " + vk + " := range vsimrt.MapKeys(" + vm + ") {"
				body := " " + vv + ", " + okv + " := " + vm + "[" + vk + "]; if !" + okv + " { continue }; _ = " + vv + ";"
				key, val := exprText(src, fset, rs.Key), exprText(src, fset, rs.Value)
				tok := ":="
				if rs.Tok == token.ASSIGN {
					tok = "="
				}
				switch {
				case rs.Key == nil:
				case rs.Value == nil:
					if key == "_" {
						break
					}
					body += " " + key + " " + tok + " " + vk + ";"
					if tok == ":=" {
						body += " _ = " + key + ";"
					}
				default:
					if key == "_" && val == "_" {
						break
					}
					body += " " + key + ", " + val + " " + tok + " " + vk + ", " + vv + ";"
				}
				// replace "for ... {" up to and including the body's lbrace
				start := fset.Position(rs.For).Offset
				lb := fset.Position(rs.Body.Lbrace).Offset
				edits = append(edits, edit{off: start, del: lb + 1 - start, text: head + body, seq: len(edits)})
				add(rs.Body.Rbrace+1, 0, " }")
				return true
			})
			// 2b. real locks: a task that blocks on a sync.Mutex held by a PARKED
			// task would stop the whole simulation.  Lock / RLock become a
			// TryLock loop that yields to the scheduler between attempts, Once.Do
			// becomes the simulator's own once (which yields while another task is
			// inside the function).
			ast.Inspect(f, func(n ast.Node) bool {
				call, ok := n.(*ast.CallExpr)
				if !ok {
					return true
				}
				sel, ok := call.Fun.(*ast.SelectorExpr)
				if !ok {
					return true
				}
				selection := info.Selections[sel]
				if selection == nil {
					return true
				}
				fn, ok := selection.Obj().(*types.Func)
				if !ok {
					return true
				}
				switch fn.FullName() {
				case "(*sync.Mutex).Lock", "(*sync.RWMutex).Lock", "(*sync.RWMutex).RLock":
					try := map[string]string{"Lock": "TryLock", "RLock": "TryRLock"}[sel.Sel.Name]
					add(call.Pos(), 0, "vsimrt.Lock(")
					add(sel.Sel.Pos(), len(sel.Sel.Name), try)
					add(call.Lparen, 1, "")
					needRT = true
					lockSites++
				case "(*sync.Pool).Get", "(*sync.Pool).Put":
					// whether a pool hands out a recycled object or makes a new one
					// depends on what the process did before and on the garbage
					// collector; in the copy it is a choice of the run's tape, and
					// every run starts with empty pools
					recv := "&("
					if _, isPtr := info.TypeOf(sel.X).(*types.Pointer); isPtr {
						recv = "("
					}
					fnName := "vsimrt.PoolGet("
					tail := ")"
					if sel.Sel.Name == "Put" {
						fnName = "vsimrt.PoolPut("
						tail = "), "
					}
					add(call.Pos(), 0, fnName+recv)
					add(sel.X.End(), fset.Position(call.Lparen).Offset+1-fset.Position(sel.X.End()).Offset, tail)
					needRT = true
					lockSites++
				case "(*sync.Once).Do":
					recv := "&("
					if _, isPtr := info.TypeOf(sel.X).(*types.Pointer); isPtr {
						recv = "("
					}
					// once.Do(f)  ->  vsimrt.OnceDo(&(once), f)
					add(call.Pos(), 0, "vsimrt.OnceDo("+recv)
					add(sel.X.End(), fset.Position(call.Lparen).Offset+1-fset.Position(sel.X.End()).Offset, "), ")
					needRT = true
					lockSites++
				}
				return true
			})
			// 3. steps
			if !*noSteps {
				step := func(body *ast.BlockStmt) {
					if body == nil {
						return
					}
					p := fset.Position(body.Lbrace)
					siteNames = append(siteNames, fmt.Sprintf("%s:%d", filepath.ToSlash(paths[i]), p.Line))
					add(body.Lbrace+1, 0, fmt.Sprintf(" vsimrt.Step(%d);", site))
					site++
					needRT = true
				}
				ast.Inspect(f, func(n ast.Node) bool {
					switch x := n.(type) {
					case *ast.FuncDecl:
						step(x.Body)
					case *ast.FuncLit:
						step(x.Body)
					case *ast.ForStmt:
						step(x.Body)
					case *ast.RangeStmt:
						step(x.Body)
					}
					return true
				})
			}
			if needRT {
				add(f.Name.End(), 0, `; import vsimrt "verifsim/rt"`)
			}
			if len(edits) == 0 {
				continue
			}
			out := apply(src, edits)
			// re-parse as a sanity check
			if _, err := parser.ParseFile(token.NewFileSet(), paths[i], out, 0); err != nil {
				fail("instrumented %s does not parse: %v", paths[i], err)
			}
			pending = append(pending, pendingWrite{paths[i], out})
		}
		// registration file
		var sb strings.Builder
		fmt.Fprintf(&sb, "package %s\n\nimport vsimrt \"verifsim/rt\"\n\nfunc init() {\n\tvsimrt.RegisterInstr(vsimrt.InstrInfo{Package: %q, StepSites: %d, MapRanges: %d, OsFiles: %d, FirstSite: %d, Sites: []string{\n",
			files[0].Name.Name, importPath, site-firstSite, mapRanges, osFiles, firstSite)
		for _, s := range siteNames {
			fmt.Fprintf(&sb, "\t\t%q,\n", s)
		}
		sb.WriteString("\t}})\n}\n")
		pending = append(pending, pendingWrite{filepath.Join(pd, "zz_verif_instr.go"), []byte(sb.String())})
		fmt.Printf("instrumented %s: %d step sites, %d map ranges, %d files os->simos\n", importPath, site-firstSite, mapRanges, osFiles)
	}
	// all packages were type-checked from the pristine sources; write now
	for _, w := range pending {
		if err := os.WriteFile(w.path, w.data, 0o644); err != nil {
			fail("%v", err)
		}
	}
	mod := string(modBytes) + "\nrequire verifsim v0.0.0\n\nreplace verifsim => " + *sim + "\n"
	if err := os.WriteFile("go.mod", []byte(mod), 0o644); err != nil {
		fail("%v", err)
	}
}

func isMap(info *types.Info, x ast.Expr) bool {
	tv, ok := info.Types[x]
	if !ok || tv.Type == nil {
		return false
	}
	_, m := tv.Type.Underlying().(*types.Map)
	return m
}

func exprText(src []byte, fset *token.FileSet, e ast.Expr) string {
	if e == nil {
		return ""
	}
	return string(src[fset.Position(e.Pos()).Offset:fset.Position(e.End()).Offset])
}

func apply(src []byte, edits []edit) []byte {
	sort.SliceStable(edits, func(i, j int) bool {
		if edits[i].off != edits[j].off {
			return edits[i].off < edits[j].off
		}
		return edits[i].seq < edits[j].seq
	})
	var out []byte
	pos := 0
	for _, e := range edits {
		if e.off < pos {
			// an insertion inside a replaced region (e.g. a Step at the lbrace of a
			// rewritten range): emit it right after the replacement
			if e.del == 0 {
				out = append(out, e.text...)
				continue
			}
			fail("overlapping edits at offset %d", e.off)
		}
		out = append(out, src[pos:e.off]...)
		out = append(out, e.text...)
		pos = e.off + e.del
	}
	out = append(out, src[pos:]...)
	return out
}

func uniq(s []string) []string {
	out := s[:0]
	for i, x := range s {
		if i == 0 || x != s[i-1] {
			out = append(out, x)
		}
	}
	return out
}

func fail(format string, args ...interface{}) {
	fmt.Fprintf(os.Stderr, "vinstr: "+format+"\n", args...)
	os.Exit(1)
}
