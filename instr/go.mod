module vinstr

go 1.19
